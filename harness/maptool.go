package main

import (
	"fmt"
	"strings"

	"github.com/alttpo/snes/mapping/exhirom"
	"github.com/alttpo/snes/mapping/hirom"
	"github.com/alttpo/snes/mapping/lorom"
	"github.com/alttpo/snes/mapping/sa1rom"
	"github.com/alttpo/snes/mapping/util"
)

type mapFn func(uint32) (uint32, error)

var mappers = map[string][2]mapFn{
	"lorom":   {lorom.BusAddressToPak, lorom.PakAddressToBus},
	"hirom":   {hirom.BusAddressToPak, hirom.PakAddressToBus},
	"exhirom": {exhirom.BusAddressToPak, exhirom.PakAddressToBus},
	"sa1rom":  {sa1rom.BusAddressToPak, sa1rom.PakAddressToBus},
}

const mask63 = (uint64(1) << 63) - 1

func mix(h, v uint64) uint64 { return (h*1000003 + v + 1) & mask63 }

func enc(v uint32, err error) uint64 {
	e := uint64(0)
	if err != nil {
		if err == util.ErrUnmappedAddress {
			e = 1
		} else {
			e = 2
		}
	}
	return (uint64(v)*4 + e) & mask63
}

func bankDigests(f mapFn) string {
	var sb strings.Builder
	for b := uint32(0); b < 256; b++ {
		h := uint64(0)
		for o := uint32(0); o < 65536; o++ {
			h = mix(h, enc(f(b<<16|o)))
		}
		fmt.Fprintf(&sb, " %d", h)
	}
	return sb.String()
}

func pclass(p uint32) int {
	switch {
	case p < 0xE00000:
		return 1
	case p < 0xF00000:
		return 2
	case p < 0xF50000:
		return 0
	}
	return 3
}

func inWindow(p uint32) bool { return p < 0xF00000 || (p >= 0xF50000 && p < 0xF70000) }

func sysbank(b uint32) bool { return b <= 0x3F || (b >= 0x80 && b <= 0xBF) }

// ---- C05 clause (v): the documented region tables, an independent copy as Go data ----
// Transcribed a second time (not generated from coq/Spec/MapSpec.v) from the comments in
// mapping/<mapper>/mapping.go and the rows of the passing TestBusAddressToPak tables, in a
// different encoding: rows follow the comments' own bank splits and carry the ABSOLUTE FX Pak Pro
// address of the region's first byte (the Coq tables carry class + linear position inside the class).
// The Coq theorem C05_region_<m> says code = Coq table and this clause says code = Go table, over
// all 2^24 addresses, so when both pass the two transcriptions are extensionally equal.
type layoutKind int

const (
	half32K layoutKind = iota // ((bank-b0)<<15) + (offs & 0x7FFF)   packed half-banks (util.BankToLinear)
	full64K                   // ((bank-b0)<<16) + offs              whole banks, linear
	page8K                    // ((bank-b0)<<13) + (offs & 0x1FFF)   one 8 KiB window per bank, packed
	image8K                   // offs & 0x1FFF                       the same 8 KiB block everywhere
)

const (
	clsROM  = 1
	clsSRAM = 2
	clsWRAM = 3
)

var className = map[int]string{clsROM: "ROM", clsSRAM: "SRAM", clsWRAM: "WRAM"}

type region struct {
	bankLo, bankHi uint32 // inclusive
	offLo, offHi   uint32 // inclusive
	class          int
	pak            uint32 // FX Pak Pro address of bankLo:offLo
	layout         layoutKind
	doc            string // the comment / test rows the row was read from
}

func (r *region) covers(bank, offs uint32) bool {
	return r.bankLo <= bank && bank <= r.bankHi && r.offLo <= offs && offs <= r.offHi
}

func (r *region) place(bank, offs uint32) uint32 {
	k := bank - r.bankLo
	switch r.layout {
	case half32K:
		return r.pak + (k << 15) + (offs & 0x7FFF)
	case full64K:
		return r.pak + (k << 16) + offs
	case page8K:
		return r.pak + (k << 13) + (offs & 0x1FFF)
	}
	return r.pak + (offs & 0x1FFF)
}

// rows shared by several mappers (each mapper's comments repeat them)
func wram7E() region {
	return region{0x7E, 0x7F, 0x0000, 0xFFFF, clsWRAM, 0xF50000, full64K, "WRAM access: banks $7E-$7F; $7E:0000->$F50000 $7F:FFFF->$F6FFFF"}
}
func lowWRAM(lo, hi uint32) region {
	return region{lo, hi, 0x0000, 0x1FFF, clsWRAM, 0xF50000, image8K, "Lower 8KiB of WRAM; $xx:0000->$F50000 $xx:1FFF->$F51FFF"}
}

var regionTables = map[string][]region{
	"lorom": {
		{0xF0, 0xFF, 0x8000, 0xFFFF, clsROM, 0x180000, half32K, "ROM access: $F0:8000-$F0:FFFF; $F0:8000->$180000 $FF:FFFF->$1FFFFF"},
		{0xF0, 0xFF, 0x0000, 0x7FFF, clsSRAM, 0xE00000, half32K, "SRAM access: $F0:0000-$FF:7FFF; $F0:0000->$E00000 $FF:0000->$E78000"},
		{0x80, 0xBF, 0x8000, 0xFFFF, clsROM, 0x000000, half32K, "ROM access: $80:8000-$EF:FFFF (bank & $3F); $80:FFC0->$007FC0"},
		{0xC0, 0xEF, 0x8000, 0xFFFF, clsROM, 0x000000, half32K, "ROM access: $80:8000-$EF:FFFF (bank & $3F); $C0:FFC0->$007FC0 header shadow"},
		lowWRAM(0x80, 0xEF),
		wram7E(),
		{0x70, 0x7D, 0x8000, 0xFFFF, clsROM, 0x180000, half32K, "ROM access: $70:8000-$7D:FFFF; $70:8000->$180000 $7D:FFFF->$1EFFFF"},
		{0x70, 0x7D, 0x0000, 0x7FFF, clsSRAM, 0xE00000, half32K, "SRAM access: $70:0000-$7D:7FFF; $70:0000->$E00000 $7D:7FFF->$E6FFFF"},
		{0x00, 0x3F, 0x8000, 0xFFFF, clsROM, 0x000000, half32K, "ROM access: $00:8000-$6F:FFFF (bank & $3F); $00:FFC0->$007FC0"},
		{0x40, 0x6F, 0x8000, 0xFFFF, clsROM, 0x000000, half32K, "ROM access: $00:8000-$6F:FFFF (bank & $3F); $40:FFC0->$007FC0 header shadow"},
		lowWRAM(0x00, 0x6F),
	},
	"hirom": {
		{0xFE, 0xFF, 0x0000, 0xFFFF, clsROM, 0x3E0000, full64K, "ROM access: $FE:0000-$FF:FFFF; $FE:0000->$3E0000 $FF:FFFF->$3FFFFF"},
		{0xC0, 0xFD, 0x0000, 0xFFFF, clsROM, 0x000000, full64K, "ROM access: $C0:0000-$FD:FFFF; $C0:0000->$000000 $FD:FFFF->$3DFFFF"},
		{0xA0, 0xBF, 0x8000, 0xFFFF, clsROM, 0x100000, half32K, "ROM access: $A0:8000-$BF:FFFF; $A0:8000->$100000 $A1:8000->$108000"},
		{0xA0, 0xBF, 0x6000, 0x7FFF, clsSRAM, 0xE00000, page8K, "SRAM access: $A0:6000-$BF:7FFF; $A1:6000->$E02000 $BF:7FFF->$E3FFFF"},
		lowWRAM(0xA0, 0xBF),
		{0x80, 0x9F, 0x8000, 0xFFFF, clsROM, 0x000000, half32K, "ROM access: $80:8000-$9F:FFFF; $80:8000->$000000 $9F:FFFF->$0FFFFF"},
		lowWRAM(0x80, 0x9F),
		wram7E(),
		{0x40, 0x7D, 0x0000, 0xFFFF, clsROM, 0x000000, full64K, "ROM access: $40:0000-$7D:FFFF; $40:0000->$000000 $7D:FFFF->$3DFFFF"},
		{0x20, 0x3F, 0x8000, 0xFFFF, clsROM, 0x100000, half32K, "ROM access: $20:8000-$3F:FFFF; $20:8000->$100000 $21:8000->$108000"},
		{0x20, 0x3F, 0x6000, 0x7FFF, clsSRAM, 0xE00000, page8K, "SRAM access: $20:6000-$3F:7FFF; $21:6000->$E02000 $3F:7FFF->$E3FFFF"},
		lowWRAM(0x20, 0x3F),
		{0x00, 0x1F, 0x8000, 0xFFFF, clsROM, 0x000000, half32K, "ROM access: $00:8000-$1F:FFFF; $00:8000->$000000 $1F:FFFF->$0FFFFF"},
		lowWRAM(0x00, 0x1F),
	},
	"exhirom": {
		{0xC0, 0xFF, 0x0000, 0xFFFF, clsROM, 0x000000, full64K, "program area 1 ROM access: $C0:0000-$FF:FFFF; $C0:0000->$000000 $FF:FFFF->$3FFFFF"},
		{0xA0, 0xBF, 0x8000, 0xFFFF, clsROM, 0x100000, half32K, "program area 1 ROM access: $A0:8000-$BF:FFFF; $A0:8000->$100000"},
		{0xA0, 0xBF, 0x6000, 0x7FFF, clsSRAM, 0xE00000, page8K, "SRAM access: $A0:6000-$BF:7FFF; $A1:6000->$E02000 $BF:7FFF->$E3FFFF"},
		lowWRAM(0xA0, 0xBF),
		{0x80, 0x9F, 0x8000, 0xFFFF, clsROM, 0x000000, half32K, "program area 1 ROM access: $80:8000-$9F:FFFF; $80:8000->$000000 $81:8000->$008000"},
		lowWRAM(0x80, 0x9F),
		wram7E(),
		{0x40, 0x7D, 0x0000, 0xFFFF, clsROM, 0x400000, full64K, "program area 2 ROM access: $40:0000-$7D:FFFF; $40:0000->$400000 $7D:FFFF->$7DFFFF"},
		{0x3E, 0x3F, 0x8000, 0xFFFF, clsROM, 0x5F0000, half32K, "program area 3 ROM access: $3E:8000-$3F:FFFF; $3E:8000->$5F0000 $3F:8000->$5F8000"},
		lowWRAM(0x3E, 0x3F),
		{0x20, 0x3D, 0x8000, 0xFFFF, clsROM, 0x500000, half32K, "program area 2 ROM access: $20:8000-$3D:FFFF; $20:8000->$500000 $21:8000->$508000"},
		lowWRAM(0x20, 0x3D),
		{0x00, 0x1F, 0x8000, 0xFFFF, clsROM, 0x400000, half32K, "program area 2 ROM access: $00:8000-$1F:FFFF; $00:8000->$400000 $1F:FFFF->$4FFFFF"},
		lowWRAM(0x00, 0x1F),
	},
	"sa1rom": {
		{0xC0, 0xFF, 0x0000, 0xFFFF, clsROM, 0x000000, full64K, "C0..FF ROM area CX, DX, EX, FX: linearly mapped to banks $00..3F of linear ROM"},
		{0x80, 0xBF, 0x8000, 0xFFFF, clsROM, 0x200000, half32K, "80..BF ROM (EX, FX); $80:8000->$200000 $BF:FFFF->$3FFFFF"},
		{0x80, 0xBF, 0x6000, 0x7FFF, clsSRAM, 0xE00000, image8K, "80..BF BW-RAM image dynamically selects a single $2000 sized block"},
		lowWRAM(0x80, 0xBF),
		wram7E(),
		{0x44, 0x4F, 0x0000, 0xFFFF, clsSRAM, 0xE00000, image8K, "44..4F BW-RAM image, a single $2000 sized block; $44:2000->$E00000 $4F:FFFF->$E01FFF"},
		{0x40, 0x43, 0x0000, 0xFFFF, clsSRAM, 0xE00000, full64K, "40..43 BW-RAM area: linearly mapped; $40:0000->$E00000 $43:FFFF->$E3FFFF"},
		{0x00, 0x3F, 0x8000, 0xFFFF, clsROM, 0x000000, half32K, "00..3F ROM for CX, DX; $00:8000->$000000 $3F:FFFF->$1FFFFF"},
		{0x00, 0x3F, 0x6000, 0x7FFF, clsSRAM, 0xE00000, image8K, "00..3F BW-RAM image dynamically selects a single $2000 sized block"},
		lowWRAM(0x00, 0x3F),
	},
}

// findRegion returns the unique documented row covering n (nil: no region documented there);
// two covering rows are a defect of the table itself, reported as such.
func findRegion(tbl []region, n uint32) (*region, string) {
	bank, offs := n>>16, n&0xFFFF
	var hit *region
	for i := range tbl {
		if tbl[i].covers(bank, offs) {
			if hit != nil {
				return nil, fmt.Sprintf("TABLE ERROR rows overlap at %06x: {%s} and {%s}", n, hit.doc, tbl[i].doc)
			}
			hit = &tbl[i]
		}
	}
	return hit, ""
}

func regionClause(tbl []region, b2p mapFn) func(n uint32) string {
	return func(n uint32) string {
		r, terr := findRegion(tbl, n)
		if terr != "" {
			return terr
		}
		p, err := b2p(n)
		if r == nil {
			if err == nil {
				return fmt.Sprintf("bus %06x -> pak %06x but no region is documented there (want 0, ErrUnmappedAddress)", n, p)
			}
			return ""
		}
		want := r.place(n>>16, n&0xFFFF)
		if pclass(want) != r.class || !inWindow(want) {
			return fmt.Sprintf("TABLE ERROR row {%s} places %06x at %06x outside the %s window", r.doc, n, want, className[r.class])
		}
		if err != nil {
			return fmt.Sprintf("bus %06x -> (%06x,%v) but the region table says %s, pak %06x {%s}", n, p, err, className[r.class], want, r.doc)
		}
		if p != want {
			return fmt.Sprintf("bus %06x -> pak %06x (%s +%06x) but the region table says pak %06x (%s +%06x) {%s}",
				n, p, className[pclass(p)], p-classBase(p), want, className[r.class], want-classBase(want), r.doc)
		}
		return ""
	}
}

func classBase(p uint32) uint32 {
	switch pclass(p) {
	case clsROM:
		return 0
	case clsSRAM:
		return 0xE00000
	case clsWRAM:
		return 0xF50000
	}
	return 0
}

// mapcheck: the C04/C05 clauses stated directly against the compiled functions (falsifier).
func mapCheck(name string) int {
	m := mappers[name]
	b2p, p2b := m[0], m[1]
	type clause struct {
		id string
		f  func(n uint32) string
	}
	page := func(f mapFn) func(n uint32) string {
		return func(n uint32) string {
			if n&8191 == 8191 {
				return ""
			}
			p, e1 := f(n)
			q, e2 := f(n + 1)
			if (e1 == nil) != (e2 == nil) {
				return fmt.Sprintf("mapped-ness changes inside a page: f(n)=(%06x,%v) f(n+1)=(%06x,%v)", p, e1, q, e2)
			}
			if e1 == nil && q != p+1 {
				return fmt.Sprintf("byte order not preserved: f(n)=%06x f(n+1)=%06x", p, q)
			}
			return ""
		}
	}
	clauses := []clause{
		{"C04.right_inverse", func(n uint32) string {
			p, err := b2p(n)
			if err != nil {
				return ""
			}
			b, err := p2b(p)
			if err != nil {
				return fmt.Sprintf("pak %06x (from bus %06x) rejected: %v", p, n, err)
			}
			q, err := b2p(b)
			if err != nil || q != p {
				return fmt.Sprintf("bus %06x -> pak %06x -> bus %06x -> (%06x,%v)", n, p, b, q, err)
			}
			return ""
		}},
		{"C04.pak_to_bus_class", func(n uint32) string {
			b, err := p2b(n)
			if err != nil {
				return ""
			}
			if b >= 1<<24 {
				return fmt.Sprintf("pak %06x -> bus %x beyond 24 bits", n, b)
			}
			q, err := b2p(b)
			if err != nil {
				return fmt.Sprintf("pak %06x -> bus %06x which is unmapped", n, b)
			}
			if pclass(q) != pclass(n) || q&8191 != n&8191 {
				return fmt.Sprintf("pak %06x -> bus %06x -> pak %06x: class %d vs %d, page offset %x vs %x", n, b, q, pclass(n), pclass(q), n&8191, q&8191)
			}
			return ""
		}},
		{"C05.image", func(n uint32) string {
			p, err := b2p(n)
			if err == nil {
				if !inWindow(p) {
					return fmt.Sprintf("bus %06x -> pak %06x outside every class window", n, p)
				}
				return ""
			}
			if err != util.ErrUnmappedAddress || p != 0 {
				return fmt.Sprintf("bus %06x -> (%06x,%v): not (0, ErrUnmappedAddress)", n, p, err)
			}
			return ""
		}},
		{"C05.reject_window", func(n uint32) string {
			_, err := p2b(n)
			in := n >= 0xF00000 && n < 0xF50000
			if in != (err != nil) {
				return fmt.Sprintf("pak %06x: rejected=%v but in unassigned window=%v", n, err != nil, in)
			}
			return ""
		}},
		{"C05.console", func(n uint32) string {
			bank, off := n>>16, n&0xFFFF
			p, err := b2p(n)
			switch {
			case bank == 0x7E || bank == 0x7F:
				if err != nil || p != 0xF50000+(n-0x7E0000) {
					return fmt.Sprintf("WRAM bus %06x -> (%06x,%v)", n, p, err)
				}
			case sysbank(bank) && off < 0x2000:
				if err != nil || p != 0xF50000+off {
					return fmt.Sprintf("low-WRAM mirror bus %06x -> (%06x,%v)", n, p, err)
				}
			case sysbank(bank) && off < 0x6000:
				if err == nil {
					return fmt.Sprintf("register area bus %06x translated to %06x", n, p)
				}
			}
			return ""
		}},
		{"C05.page_b2p", page(b2p)},
		{"C05.page_p2b", page(p2b)},
		{"C05.region_table", regionClause(regionTables[name], b2p)},
	}
	rc := 0
	for _, c := range clauses {
		bad := ""
		for n := uint32(0); n < 1<<24; n++ {
			if msg := c.f(n); msg != "" {
				bad = fmt.Sprintf("FAIL %s %s input=%06x %s", c.id, name, n, msg)
				break
			}
		}
		if bad != "" {
			fmt.Println(bad)
			rc = 1
		} else {
			fmt.Printf("OK %s %s 16777216\n", c.id, name)
		}
	}
	return rc
}

func init() {
	commands["mapdigest"] = func(args []string) int {
		m, ok := mappers[args[0]]
		if !ok {
			return 2
		}
		fmt.Println("b2p" + bankDigests(m[0]))
		fmt.Println("p2b" + bankDigests(m[1]))
		return 0
	}
	commands["mapcheck"] = func(args []string) int { return mapCheck(args[0]) }
	commands["mapeval"] = func(args []string) int {
		// mapeval <mapper> <b2p|p2b> <hex>...: print the compiled function's value (replay support)
		m := mappers[args[0]]
		f := m[0]
		if args[1] == "p2b" {
			f = m[1]
		}
		for _, a := range args[2:] {
			var n uint32
			fmt.Sscanf(a, "%x", &n)
			v, err := f(n)
			fmt.Printf("%s %s %06x -> %06x %v\n", args[0], args[1], n, v, err)
		}
		return 0
	}
}
