package main

// emit2tool: drives the REAL asm.Emitter for properties C06 (Finalize is a two-pass assembler) and
// C15 (the hex / text listings show the emitted bytes, at their addresses, in program order).
//
//	emit2cases <seed> <count> <tier> [corpus-dir]            correspondence cases (JSON lines, as emitcases)
//	emit2check <c06|c15> <seed> <count> <tier> [corpus-dir]  falsifiers stated directly on the real code
//	emit2replay <c06|c15> <file.json>                        re-run one recorded input
//
// Everything about scripts, observation, listing parsing and random generation is reused from
// emittool.go.  What is new here: a deterministic enumeration of structured scripts (tags "c06:..." and
// "c15:..."), an abstract reference two-pass assembler that is laid out from the script and the
// accept/refuse outcome of every step only (never from the emitter's own bookkeeping), and the expected
// listing derived from the script alone.

import (
	"bufio"
	"encoding/json"
	"fmt"
	"os"
	"reflect"
	"strconv"
	"strings"

	"github.com/alttpo/snes/asm"
)

// ---------------------------------------------------------------- structured scripts

var em2Bases = []int64{0x8000, 0xC08000, 0x7E2000, 0, 0x00FF00}

var em2DbLens = []int{0, 1, 15, 16, 17, 32, 33, 40}

type em2Build struct {
	g   *emGen
	cls *emClasses
	vi  int // running variation counter: base, gen, capacity slack and branch method cycle with it
	bra int // index of BRA in cls.br (0 when absent)
	out []emScript
}

func (b *em2Build) base() int64 { return em2Bases[b.vi%len(em2Bases)] }
func (b *em2Build) gen() bool   { return b.vi%2 == 0 }
func (b *em2Build) extra() int  { return 5 * ((b.vi / 2) % 2) }

func (b *em2Build) setbase() emStep      { return emStep{K: "setbase", V: b.base()} }
func (b *em2Build) label(l int64) emStep { return emStep{K: "label", V: l} }
func (b *em2Build) comment() emStep {
	b.g.comment++
	return emStep{K: "comment", V: b.g.comment}
}

// br(0, l) is BRA when the tree has it; other indices walk through every label-branch method
func (b *em2Build) br(i int, l int64) emStep {
	m := b.cls.br[(b.bra+i)%len(b.cls.br)]
	return emStep{K: "call", M: m.name, A: []int64{l}}
}

func (b *em2Build) jmp(i int, l int64) emStep {
	m := b.cls.jmp[i%len(b.cls.jmp)]
	return emStep{K: "call", M: m.name, A: []int64{l}}
}

// a plain (unguarded, label-free, tracker-neutral) instruction of n bytes
func (b *em2Build) ins(n int) emStep {
	ms := b.cls.plain["E"+strconv.Itoa(n)]
	if len(ms) == 0 {
		return b.g.data(n)
	}
	return b.g.call(ms[b.g.r.n(len(ms))])
}

func (b *em2Build) nop() emStep {
	if emMethByName["NOP"] != nil {
		return emStep{K: "call", M: "NOP"}
	}
	return b.ins(1)
}

// exactly k bytes of padding; style 0 = data blocks, 1 = data and instructions, 2 = instructions only
func (b *em2Build) pad(k, style int) []emStep {
	type piece struct {
		n    int
		data bool
	}
	mixed := []piece{{1, false}, {17, true}, {2, false}, {3, false}, {16, true}, {4, false}, {5, true}}
	var out []emStep
	for i := 0; k > 0; i++ {
		p := piece{40, true}
		switch style {
		case 1:
			p = mixed[i%len(mixed)]
		case 2:
			p = piece{4, false}
		}
		if p.n > k {
			p.n = k
		}
		if p.data || p.n > 4 {
			out = append(out, b.g.data(p.n))
		} else {
			out = append(out, b.ins(p.n))
		}
		k -= p.n
	}
	return out
}

func em2Join(parts ...interface{}) []emStep {
	var out []emStep
	for _, p := range parts {
		switch v := p.(type) {
		case emStep:
			out = append(out, v)
		case []emStep:
			out = append(out, v...)
		}
	}
	return out
}

func em2FlatTotal(gen bool, steps []emStep) int {
	return emTotal(emSizes(gen, emFlatOnly(emScript{Steps: steps}).Steps))
}

// add with capacity = bytes of the whole history + extra
func (b *em2Build) add(tag string, gen bool, extra int, steps []emStep) {
	b.addCap(tag, gen, em2FlatTotal(gen, steps)+extra, steps)
}

func (b *em2Build) addCap(tag string, gen bool, capacity int, steps []emStep) {
	b.out = append(b.out, emScript{Tag: tag, Gen: gen, Cap: capacity, Fill: (17*b.vi + 3) & 0xFF, Steps: steps})
	b.vi++
}

// em2Structured enumerates every structured class at least once.  It depends on the tree's method
// census only, never on the seed.
func em2Structured(cls *emClasses) []emScript {
	if len(cls.br) == 0 || len(cls.jmp) == 0 {
		return nil
	}
	b := &em2Build{g: &emGen{r: &emRng{s: 0xC06C15}, cls: cls, defined: map[int64]bool{}}, cls: cls}
	for i, m := range cls.br {
		if m.name == "BRA" {
			b.bra = i
		}
	}
	brIdx := func(v int) int {
		if v == 0 {
			return 0
		}
		return b.vi
	}

	// ---- C06: branch operand distances, solved exactly
	for _, k := range []int{0, 1, 126, 127, 128, 129} {
		for v := 0; v < 3; v++ {
			st := []emStep{b.setbase()}
			if v == 2 {
				st = append(st, b.ins(1), b.ins(3))
			}
			st = em2Join(st, b.br(brIdx(v), 0), b.pad(k, v), b.label(0))
			if v == 1 {
				st = append(st, b.nop())
			}
			b.add(fmt.Sprintf("c06:fwd-%d", k), b.gen(), b.extra(), st)
		}
	}
	for _, k := range []int{-2, -3, -127, -128, -129, -130} {
		for v := 0; v < 3; v++ {
			st := []emStep{b.setbase()}
			if v == 2 {
				st = append(st, b.ins(2))
			}
			st = em2Join(st, b.label(1), b.pad(-k-2, v), b.br(brIdx(v), 1))
			if v == 1 {
				st = append(st, b.ins(4))
			}
			b.add(fmt.Sprintf("c06:bwd%d", k), b.gen(), b.extra(), st)
		}
	}
	for v := 0; v < 3; v++ {
		i := b.vi
		b.add("c06:multi", b.gen(), b.extra(), em2Join(b.setbase(), b.br(0, 2), b.br(i+1, 2), b.jmp(i, 2), b.pad(3*v, 1),
			b.label(2), b.nop(), b.br(i+2, 2), b.jmp(i+1, 2)))
	}
	for v := 0; v < 3; v++ {
		b.add("c06:jmp-fwd", b.gen(), b.extra(), em2Join(b.setbase(), b.jmp(v, 0), b.pad(300*v, v), b.label(0), b.nop()))
	}
	for v := 0; v < 3; v++ {
		b.add("c06:jmp-bwd", b.gen(), b.extra(), em2Join(b.setbase(), b.nop(), b.label(0), b.pad(300*v, v), b.jmp(v, 0)))
	}
	for v := 0; v < 3; v++ {
		b.add("c06:missing8", b.gen(), b.extra(), em2Join(b.setbase(), b.label(0), b.ins(2), b.br(brIdx(v), 3), b.pad(4*v, 1), b.br(b.vi+1, 0)))
	}
	for v := 0; v < 3; v++ {
		b.add("c06:missing16", b.gen(), b.extra(), em2Join(b.setbase(), b.label(0), b.jmp(v, 3), b.pad(4*v, 2), b.jmp(v+1, 0), b.br(brIdx(v), 0)))
	}
	for v := 0; v < 3; v++ {
		b.add("c06:missing-both", b.gen(), b.extra(), em2Join(b.setbase(), b.label(0), b.br(brIdx(v), 0), b.br(b.vi+1, 1),
			b.pad(5*v, 1), b.jmp(v, 2), b.jmp(v+1, 0)))
	}
	// two errors among the rel8 references (the visiting order decides), then one error in each map
	for v := 0; v < 4; v++ {
		var st []emStep
		switch v {
		case 0: // the out-of-range reference is recorded first
			st = em2Join(b.setbase(), b.br(0, 0), b.br(b.vi+1, 1), b.pad(200, 0), b.label(0))
		case 1: // the undefined one is recorded first
			st = em2Join(b.setbase(), b.br(b.vi+1, 1), b.br(b.vi, 0), b.pad(200, 1), b.label(0))
		case 2: // out-of-range rel8 to L0, undefined abs16 L1
			st = em2Join(b.setbase(), b.br(0, 0), b.jmp(0, 1), b.pad(200, 0), b.label(0))
		default: // undefined rel8 L1, out-of-range rel8 to L0 behind it, undefined abs16 L2
			st = em2Join(b.setbase(), b.label(0), b.pad(140, 2), b.br(b.vi, 0), b.br(0, 1), b.jmp(0, 2))
		}
		b.add("c06:two-errors", b.gen(), b.extra(), st)
	}
	for v := 0; v < 3; v++ {
		b.add("c06:redefine", b.gen(), b.extra(), em2Join(b.setbase(), b.label(0), b.br(brIdx(v), 0), b.pad(1+v, 2), b.label(0),
			b.jmp(v, 0), b.label(1), b.label(0), b.br(b.vi+1, 1)))
	}
	for v := 0; v < 5; v++ { // all five bases: the label keeps the address it had before SetBase
		st := em2Join(b.label(0), b.setbase(), b.br(brIdx(v), 1), b.jmp(v, 0), b.label(1))
		if v%2 == 1 {
			st = append(st, b.br(b.vi, 0))
		}
		b.add("c06:label-before-base", b.gen(), b.extra(), st)
	}
	for v := 0; v < 3; v++ {
		b.add("c06:nobase", b.gen(), b.extra(), em2Join(b.br(brIdx(v), 0), b.pad(3*v, 1), b.label(0), b.jmp(v, 0), b.nop()))
	}
	for v := 0; v < 3; v++ {
		var st []emStep
		if v < 2 { // the first Finalize succeeds, the final one sees only the new references
			st = em2Join(b.setbase(), b.br(brIdx(v), 0), b.jmp(v, 0), b.label(0), emStep{K: "finalize"},
				b.br(b.vi+1, 1), b.jmp(v, 0), b.pad(2*v, 1), b.label(1), b.br(b.vi+2, 0))
		} else { // the first Finalize fails: the label comes too late
			st = em2Join(b.setbase(), b.br(0, 0), emStep{K: "finalize"}, b.label(0), b.nop())
		}
		b.add("c06:midfinalize", b.gen(), b.extra(), st)
	}
	for v := 0; v < 3; v++ { // 16 bytes ending exactly at the end of bank $00
		end := int64(1) // a label at $010000
		if v == 1 {
			end = 0
		}
		st := em2Join(emStep{K: "setbase", V: 0x00FFF0}, b.label(0), b.br(brIdx(v), end), b.pad(9, v), b.jmp(v, 0), b.br(b.vi+1, 0))
		if end == 1 {
			st = append(st, b.label(1))
		}
		b.add("c06:bankend", b.gen(), b.extra(), st)
	}

	// ---- C15: listings (always generated)
	for i, n := range em2DbLens {
		p := strconv.Itoa(n)
		b.addCap("c15:db-"+p+"-alone", true, n, em2Join(b.setbase(), b.g.data(n)))
		for _, extra := range []int{1, 9} {
			b.addCap("c15:db-"+p+"-then-ins", true, n+extra, em2Join(b.setbase(), b.g.data(n), b.nop()))
		}
		b.add("c15:db-"+p+"-after-ins", true, 0, em2Join(b.setbase(), b.nop(), b.g.data(n)))
		if i%2 == 0 {
			b.add("c15:db-"+p+"-twice", true, b.extra(), em2Join(b.setbase(), b.g.data(n), b.g.data(17)))
		} else {
			b.add("c15:db-"+p+"-twice", true, b.extra(), em2Join(b.g.data(n), b.g.data(17)))
		}
	}
	for v := 0; v < 2; v++ {
		b.add("c15:label-after-base", true, b.extra(), em2Join(b.setbase(), b.label(int64(v)), b.nop()))
		b.add("c15:comment-after-base", true, b.extra(), em2Join(b.setbase(), b.comment(), b.nop()))
	}
	b.add("c15:label-comment-after-base", true, b.extra(), em2Join(b.setbase(), b.label(0), b.comment(), b.nop()))
	b.add("c15:label-comment-after-base", true, b.extra(), em2Join(b.setbase(), b.comment(), b.label(0), b.nop()))
	b.add("c15:label-comment-after-base", true, b.extra(), em2Join(b.setbase(), b.label(0), b.label(1), b.comment(), b.ins(3)))
	b.add("c15:base-last", true, b.extra(), em2Join(b.setbase()))
	b.add("c15:base-last", true, b.extra(), em2Join(b.comment(), b.setbase()))
	for v := 0; v < 2; v++ {
		b.add("c15:comment-before-base", true, b.extra(), em2Join(b.comment(), b.label(int64(v)), b.setbase(), b.nop()))
	}
	for v := 0; v < 3; v++ {
		b.add("c15:refs", true, b.extra(), em2Join(b.setbase(), b.label(0), b.br(brIdx(v), 1), b.comment(), b.jmp(v, 0), b.g.data(20),
			b.label(1), b.br(b.vi+1, 0), b.ins(4), b.nop()))
	}
	for v := 0; v < 2; v++ {
		b.add("c15:refs-fail", true, b.extra(), em2Join(b.setbase(), b.label(0), b.br(brIdx(v), 3), b.jmp(v, 4), b.g.data(5), b.br(b.vi+1, 0)))
	}
	for v := 0; v < 2; v++ { // the data block does not fit; what follows does
		b.addCap("c15:nofit", true, 11+2*v, em2Join(b.setbase(), b.nop(), b.g.data(20+13*v), b.nop(), b.comment(), b.g.data(3), b.label(0), b.ins(2)))
	}
	return b.out
}

// ---------------------------------------------------------------- emit2cases

func em2CasesCmd(args []string) int {
	if len(args) < 3 {
		fmt.Fprintln(os.Stderr, "usage: emit2cases <seed> <count> <tier> [corpus-dir]")
		return 2
	}
	seed, _ := strconv.ParseUint(args[0], 10, 64)
	count, _ := strconv.Atoi(args[1])
	tier := args[2]
	cls, err := emBuildClasses()
	if err != nil {
		fmt.Println("ERROR " + err.Error())
		return 1
	}
	w := bufio.NewWriterSize(os.Stdout, 1<<20)
	defer w.Flush()
	enc := json.NewEncoder(w)
	id := 0
	emit := func(sc emScript) {
		c := emRunScript(id, sc)
		id++
		_ = enc.Encode(c)
	}
	cdir := ""
	if len(args) > 3 {
		cdir = args[3]
	}
	for _, sc := range emLoadCorpus(cdir) {
		emit(sc)
	}
	for _, sc := range em2Structured(cls) {
		emit(sc)
	}
	g := &emGen{r: &emRng{s: seed*0x9E3779B97F4A7C15 + 0x2468ACE}, cls: cls}
	for id < count {
		for _, sc := range g.scripts(tier) {
			emit(sc)
		}
	}
	names := []string{}
	for _, m := range emMethods {
		i := cls.table[m.name]
		names = append(names, fmt.Sprintf("%s:%s:%s:%s", m.name, i.Kind, i.Guard, i.Track))
	}
	census, _ := json.Marshal(map[string]interface{}{"methods": names, "unsupported": emUnsupported})
	fmt.Fprintf(w, "CENSUS %s\n", census)
	return 0
}

// ---------------------------------------------------------------- premises

// em2Premises brings a history inside the premises of C06 / C15 or rejects it: flat steps only, a
// non-nil target, SetBase at most once and before the first instruction / data step, a 24-bit base, the
// whole code inside the base's 64 KiB bank.  Later SetBase steps are removed, the base's low 16 bits are
// lowered until the code fits.  fitAll: capacity = max(script capacity, total); otherwise a history whose
// tag says "nofit" keeps its capacity.
func em2Premises(sc emScript, fitAll bool) (emScript, bool) {
	sc = emFlatOnly(sc)
	sc.Nil = false
	var steps []emStep
	baseAt := -1
	code := false
	for _, st := range sc.Steps {
		switch st.K {
		case "setbase":
			if baseAt >= 0 || code {
				continue
			}
			st.V &= 0xFFFFFF
			baseAt = len(steps)
		case "call", "bytes":
			code = true
		case "label", "comment", "arep", "asep":
		default:
			return sc, false
		}
		steps = append(steps, st)
	}
	sc.Steps = steps
	total := emTotal(emSizes(sc.Gen, steps))
	if total > 0x10000 {
		return sc, false
	}
	if baseAt >= 0 {
		if v := steps[baseAt].V; (v&0xFFFF)+int64(total) > 0x10000 {
			steps[baseAt].V = v&0xFF0000 | (0x10000 - int64(total))
		}
	}
	if sc.Cap < 0 {
		sc.Cap = 0
	}
	if sc.Cap < total && (fitAll || !strings.Contains(sc.Tag, "nofit")) {
		sc.Cap = total
	}
	return sc, true
}

func em2Hex(b []int) string {
	var s strings.Builder
	s.WriteByte('[')
	for i, v := range b {
		if i > 0 {
			s.WriteByte(' ')
		}
		fmt.Fprintf(&s, "%02x", v&0xFF)
	}
	s.WriteByte(']')
	return s.String()
}

func em2IntsEq(a, b []int) bool {
	if len(a) != len(b) {
		return false
	}
	for i := range a {
		if a[i] != b[i] {
			return false
		}
	}
	return true
}

func em2StepName(i int, st emStep) string {
	s := fmt.Sprintf("step %d (%s", i, st.K)
	switch st.K {
	case "call":
		s += fmt.Sprintf(" %s %v", st.M, st.A)
	case "bytes":
		s += fmt.Sprintf(" %d", len(st.D))
	default:
		s += fmt.Sprintf(" %#x", st.V)
	}
	return s + ")"
}

// ---------------------------------------------------------------- C06: reference two-pass assembler

type em2Ref struct {
	L   int64 // label index
	Off int   // offset of the operand in the image (instruction offset + 1)
}

type em2Asm struct {
	base   int64
	image  []int
	labels map[int64]int64
	rel8   []em2Ref
	abs16  []em2Ref
}

func (r *em2Asm) pc() int64 { return r.base + int64(len(r.image)) }

// every problem of pass 2, in reference order
type em2Problem struct {
	unresolved bool
	l          int64
	from, to   int64
}

func (r *em2Asm) pass2() (patched []int, operand []bool, problems []em2Problem) {
	patched = append([]int{}, r.image...)
	operand = make([]bool, len(r.image))
	for _, x := range r.rel8 {
		operand[x.Off] = true
		to, ok := r.labels[x.L]
		if !ok {
			problems = append(problems, em2Problem{unresolved: true, l: x.L})
			continue
		}
		from := r.base + int64(x.Off) + 1
		if d := to - from; d < -128 || d > 127 {
			problems = append(problems, em2Problem{l: x.L, from: from, to: to})
		} else {
			patched[x.Off] = int(byte(d))
		}
	}
	for _, x := range r.abs16 {
		operand[x.Off], operand[x.Off+1] = true, true
		to, ok := r.labels[x.L]
		if !ok {
			problems = append(problems, em2Problem{unresolved: true, l: x.L})
			continue
		}
		patched[x.Off], patched[x.Off+1] = int(to&0xFF), int((to>>8)&0xFF)
	}
	return
}

func (r *em2Asm) describe() string {
	var s strings.Builder
	fmt.Fprintf(&s, "base=%#06x labels={", r.base)
	first := true
	for i := int64(0); i < emNL; i++ {
		if v, ok := r.labels[i]; ok {
			if !first {
				s.WriteByte(' ')
			}
			first = false
			fmt.Fprintf(&s, "%s=%#06x", emName(i), v)
		}
	}
	s.WriteString("} rel8=[")
	for i, x := range r.rel8 {
		if i > 0 {
			s.WriteByte(' ')
		}
		fmt.Fprintf(&s, "%s@%#06x", emName(x.L), r.base+int64(x.Off))
	}
	s.WriteString("] abs16=[")
	for i, x := range r.abs16 {
		if i > 0 {
			s.WriteByte(' ')
		}
		fmt.Fprintf(&s, "%s@%#06x", emName(x.L), r.base+int64(x.Off))
	}
	s.WriteString("]")
	return s.String()
}

// em2C06 judges one history; returns the first violated check and the number of checks evaluated.
func em2C06(in emScript) (*emFail, int) {
	emCensus()
	sc, ok := em2Premises(in, false)
	if !ok {
		return nil, 0
	}
	fail := func(key, d string) *emFail { return &emFail{Clause: "C06." + key, Key: key, Detail: d, Script: sc} }
	a := asm.NewEmitter(emTarget(false, sc.Cap, sc.Fill), sc.Gen)
	ref := &em2Asm{labels: map[int64]int64{}}
	anomaly := ""
	note := func(s string) {
		if anomaly == "" {
			anomaly = s
		}
	}
	// pass 1: lay the accepted steps out from the base
	for i, st := range sc.Steps {
		p, info, err := emDoFlat(a, st)
		if err != nil {
			return nil, 0
		}
		if p {
			switch st.K {
			case "label":
				if _, def := ref.labels[st.V]; !def {
					note(em2StepName(i, st) + ": Label refused although " + emName(st.V) + " had no definition")
				}
			case "bytes":
				if len(ref.image)+len(st.D) <= sc.Cap {
					note(fmt.Sprintf("%s: EmitBytes refused although %d+%d bytes fit in %d", em2StepName(i, st), len(ref.image), len(st.D), sc.Cap))
				}
			case "call":
			default:
				note(em2StepName(i, st) + ": refused")
			}
			continue
		}
		switch st.K {
		case "setbase":
			ref.base = st.V & 0xFFFFFFFF
		case "label":
			if old, def := ref.labels[st.V]; def {
				note(fmt.Sprintf("%s: second definition of %s accepted (first at %#06x)", em2StepName(i, st), emName(st.V), old))
			} else {
				ref.labels[st.V] = ref.pc()
			}
		case "call":
			off := len(ref.image)
			ref.image = append(ref.image, info.Bytes...)
			switch info.Kind {
			case "E2L":
				ref.rel8 = append(ref.rel8, em2Ref{L: info.Label, Off: off + 1})
			case "E3L":
				ref.abs16 = append(ref.abs16, em2Ref{L: info.Label, Off: off + 1})
			}
		case "bytes":
			for _, v := range st.D {
				ref.image = append(ref.image, v&0xFF)
			}
		}
	}
	ne := 0

	// ---- before Finalize
	ne++
	before := emObserve(a)
	switch {
	case anomaly != "":
		return fail("history", anomaly), ne
	case !em2IntsEq(before.Bytes, ref.image):
		return fail("history", fmt.Sprintf("before Finalize Bytes() = %s, the accepted steps laid out give %s", em2Hex(before.Bytes), em2Hex(ref.image))), ne
	case before.PC != ref.pc()&0xFFFFFFFF:
		return fail("history", fmt.Sprintf("before Finalize PC() = %#06x, base %#06x + %d bytes = %#06x", before.PC, ref.base, len(ref.image), ref.pc())), ne
	case before.Len > before.Cap:
		return fail("history", fmt.Sprintf("Len() %d > Cap() %d", before.Len, before.Cap)), ne
	}
	for i := int64(0); i < emNL; i++ {
		want, def := ref.labels[i]
		if !def {
			want = -1
		}
		if before.Labels[i] != want {
			return fail("history", fmt.Sprintf("GetLabel(%s) = %#x, label table of the reference assembler has %#x (-1 = undefined); %s",
				emName(i), before.Labels[i], want, ref.describe())), ne
		}
	}

	// ---- Finalize
	patched, operand, problems := ref.pass2()
	fin := emFinalize(a)
	after := emObserve(a)
	ne++
	if (fin.Cls == "ok") != (len(problems) == 0) {
		exp := "success (every referenced label is defined, every rel8 distance is within -128..127)"
		if len(problems) > 0 {
			p := problems[0]
			if p.unresolved {
				exp = "an error: " + emName(p.l) + " is referenced and never defined"
			} else {
				exp = fmt.Sprintf("an error: branch operand at %#06x to %s=%#06x has distance %d", p.from-1, emName(p.l), p.to, p.to-p.from)
			}
		}
		return fail("finalize-outcome", fmt.Sprintf("Finalize returned %s %q, expected %s; %s", fin.Cls, fin.Msg, exp, ref.describe())), ne
	}
	ne++
	if fin.Cls == "ok" {
		if !em2IntsEq(after.Bytes, patched) {
			return fail("finalize-bytes", fmt.Sprintf("after a successful Finalize Bytes() = %s, expected %s (image before %s); %s",
				em2Hex(after.Bytes), em2Hex(patched), em2Hex(ref.image), ref.describe())), ne
		}
	} else {
		good := false
		var allowed []string
		for _, p := range problems {
			if p.unresolved {
				allowed = append(allowed, "unresolved "+emName(p.l))
				good = good || (fin.Cls == "unresolved" && fin.L == p.l)
			} else {
				allowed = append(allowed, fmt.Sprintf("toofar from %#06x to %#06x", p.from, p.to))
				good = good || (fin.Cls == "toofar" && fin.From == p.from && fin.To == p.to)
			}
		}
		if !good {
			return fail("finalize-error", fmt.Sprintf("Finalize reported %s %q (label %s, from %#06x, to %#06x); the reference assembler allows only: %s; %s",
				fin.Cls, fin.Msg, emName(fin.L), fin.From, fin.To, strings.Join(allowed, " | "), ref.describe())), ne
		}
	}
	ne++
	if len(after.Bytes) != len(before.Bytes) {
		return fail("finalize-frame", fmt.Sprintf("Finalize (%s) changed the number of bytes from %d to %d", fin.Cls, len(before.Bytes), len(after.Bytes))), ne
	}
	for i := range before.Bytes {
		if !operand[i] && before.Bytes[i] != after.Bytes[i] {
			return fail("finalize-frame", fmt.Sprintf("Finalize (%s) changed byte %d (address %#06x), not an operand of a label reference, from %02x to %02x; %s",
				fin.Cls, i, ref.base+int64(i), before.Bytes[i], after.Bytes[i], ref.describe())), ne
		}
	}
	b2, a2 := before, after
	b2.Bytes, a2.Bytes = nil, nil
	if !emObsEq(b2, a2) {
		return fail("finalize-frame", fmt.Sprintf("Finalize (%s) changed len/cap/pc/flags/base/labels: before %+v, after %+v", fin.Cls, b2, a2)), ne
	}

	// ---- Finalize once more: nothing was defined in between, so it succeeds exactly when the first call did (an
	// unresolved or out-of-range reference stays one), and after a success it has nothing left to change
	ne++
	fin2 := emFinalize(a)
	after2 := emObserve(a)
	if (fin2.Cls == "ok") != (fin.Cls == "ok") {
		return fail("finalize-again", fmt.Sprintf("the first Finalize returned %s %q, a second Finalize of the unchanged emitter returned %s %q; %s",
			fin.Cls, fin.Msg, fin2.Cls, fin2.Msg, ref.describe())), ne
	}
	if fin.Cls == "ok" && !emObsEq(after, after2) {
		return fail("finalize-again", fmt.Sprintf("a second Finalize after a successful one changed the emitter: %+v -> %+v", after, after2)), ne
	}
	for i := range before.Bytes {
		if i < len(after2.Bytes) && !operand[i] && before.Bytes[i] != after2.Bytes[i] {
			return fail("finalize-frame", fmt.Sprintf("the second Finalize (%s) changed byte %d (address %#06x), not an operand of a label reference, from %02x to %02x; %s",
				fin2.Cls, i, ref.base+int64(i), before.Bytes[i], after2.Bytes[i], ref.describe())), ne
		}
	}

	// ---- a defined label cannot be defined again
	ne++
	for i := int64(0); i < emNL; i++ {
		if _, def := ref.labels[i]; !def {
			continue
		}
		o0, h0, t0 := emObserve(a), emRawListing(a, true), emRawListing(a, false)
		name := emName(i)
		if !emProtect(func() { a.Label(name) }) {
			return fail("label-redefinition", fmt.Sprintf("Label(%s) accepted although %s is defined at %#06x", name, name, ref.labels[i])), ne
		}
		o1, h1, t1 := emObserve(a), emRawListing(a, true), emRawListing(a, false)
		if !emObsEq(o0, o1) || h0 != h1 || t0 != t1 {
			return fail("label-redefinition", fmt.Sprintf("the refused Label(%s) changed the emitter: state %+v -> %+v; hex listing %q -> %q; text listing %q -> %q",
				name, o0, o1, h0, h1, t0, t1)), ne
		}
	}
	return nil, ne
}

// ---------------------------------------------------------------- C15: expected listing

type em2Exp struct {
	K    string // base label comment db ins1 ins2 ins2l ins3 ins3l ins4
	L    int64  // label index / comment id
	Addr int64  // base records
	Off  int    // byte-carrying records: offset into Bytes()
	N    int    // byte-carrying records: number of bytes
}

var em2InsKind = map[string]string{"E1": "ins1", "E2": "ins2", "E2L": "ins2l", "E3": "ins3", "E3L": "ins3l", "E4": "ins4"}

func em2Carries(k string) bool { return k == "db" || strings.HasPrefix(k, "ins") }

func em2Pos(k string, l, addr int64) string {
	switch k {
	case "base":
		return fmt.Sprintf("base $%06x", addr)
	case "label":
		return "label " + emName(l)
	case "comment":
		return "comment c" + strconv.FormatInt(l, 10)
	case "ins2l", "ins3l":
		return k + " " + emName(l)
	}
	return k
}

func em2ExpSeq(exp []em2Exp) []string {
	out := []string{}
	for _, e := range exp {
		out = append(out, em2Pos(e.K, e.L, e.Addr))
	}
	return out
}

func em2RLSeq(ls []emRL) []string {
	out := []string{}
	for _, r := range ls {
		out = append(out, em2Pos(r.K, r.L, r.Addr))
	}
	return out
}

func em2Carrying(ls []emRL) []emRL {
	var out []emRL
	for _, r := range ls {
		if em2Carries(r.K) {
			out = append(out, r)
		}
	}
	return out
}

// em2Listing checks both listings of a against the expected records; returns (key, detail, evaluations)
func em2Listing(a *asm.Emitter, exp []em2Exp, base int64, phase string) (string, string, int) {
	ne := 0
	o0, h0, t0 := emObserve(a), emRawListing(a, true), emRawListing(a, false)
	cur := o0.Bytes
	hex, text := emRenderOf(a, true), emRenderOf(a, false)
	ctx := func() string {
		return fmt.Sprintf("\nBytes() = %s\nexpected records: %s\nhex listing:\n%s\ntext listing:\n%s", em2Hex(cur), strings.Join(em2ExpSeq(exp), "; "), h0, t0)
	}
	ne++
	switch {
	case hex.Panic:
		return "hex-panic", phase + ": WriteHexTo panicked after " + strconv.Itoa(len(hex.Lines)) + " records" + ctx(), ne
	case hex.Bad != "":
		return "hex-panic", phase + ": WriteHexTo wrote a record that is none of the listing forms: " + strconv.Quote(hex.Bad) + ctx(), ne
	}
	ne++
	switch {
	case text.Panic:
		return "text-panic", phase + ": WriteTextTo panicked after " + strconv.Itoa(len(text.Lines)) + " records" + ctx(), ne
	case text.Bad != "":
		return "text-panic", phase + ": WriteTextTo wrote a record that is none of the listing forms: " + strconv.Quote(text.Bad) + ctx(), ne
	}
	var want []em2Exp
	for _, e := range exp {
		if em2Carries(e.K) {
			want = append(want, e)
		}
	}
	// hex listing: the bytes, all of them, once, in order
	ne++
	hc := em2Carrying(hex.Lines)
	cat := []int{}
	for _, r := range hc {
		cat = append(cat, r.Bytes...)
	}
	if !em2IntsEq(cat, cur) {
		return "hex-bytes", fmt.Sprintf("%s: the bytes of the hex listing, concatenated, are %s (%d bytes); Bytes() has %d bytes", phase, em2Hex(cat), len(cat), len(cur)) + ctx(), ne
	}
	if len(hc) != len(want) {
		return "hex-bytes", fmt.Sprintf("%s: the hex listing has %d records with bytes, expected %d", phase, len(hc), len(want)) + ctx(), ne
	}
	for i, e := range want {
		if !em2IntsEq(hc[i].Bytes, cur[e.Off:e.Off+e.N]) {
			return "hex-bytes", fmt.Sprintf("%s: byte record %d (%s) of the hex listing carries %s, expected the %d bytes at offset %d: %s",
				phase, i, e.K, em2Hex(hc[i].Bytes), e.N, e.Off, em2Hex(cur[e.Off:e.Off+e.N])) + ctx(), ne
		}
	}
	// text listing: address and bytes of every record
	ne++
	tc := em2Carrying(text.Lines)
	if len(tc) != len(want) {
		return "text-addr-bytes", fmt.Sprintf("%s: the text listing has %d records with bytes, expected %d", phase, len(tc), len(want)) + ctx(), ne
	}
	for i, e := range want {
		addr := (base + int64(e.Off)) & 0xFFFFFF
		if tc[i].Addr != addr || !em2IntsEq(tc[i].Bytes, cur[e.Off:e.Off+e.N]) {
			return "text-addr-bytes", fmt.Sprintf("%s: byte record %d (%s) of the text listing shows $%06x %s, expected $%06x %s",
				phase, i, e.K, tc[i].Addr, em2Hex(tc[i].Bytes), addr, em2Hex(cur[e.Off:e.Off+e.N])) + ctx(), ne
		}
	}
	// positions of base / label / comment / instruction / data records
	ne++
	es := em2ExpSeq(exp)
	if hs := em2RLSeq(hex.Lines); !reflect.DeepEqual(hs, es) {
		return "positions", fmt.Sprintf("%s: hex listing records are [%s], expected [%s]", phase, strings.Join(hs, "; "), strings.Join(es, "; ")) + ctx(), ne
	}
	if ts := em2RLSeq(text.Lines); !reflect.DeepEqual(ts, es) {
		return "positions", fmt.Sprintf("%s: text listing records are [%s], expected [%s]", phase, strings.Join(ts, "; "), strings.Join(es, "; ")) + ctx(), ne
	}
	// rendering is an observation
	ne++
	o1, h1, t1 := emObserve(a), emRawListing(a, true), emRawListing(a, false)
	if !emObsEq(o0, o1) || h0 != h1 || t0 != t1 {
		return "render-changes-state", fmt.Sprintf("%s: rendering changed the emitter: state %+v -> %+v; hex listing %q -> %q; text listing %q -> %q",
			phase, o0, o1, h0, h1, t0, t1), ne
	}
	return "", "", ne
}

// em2C15 judges one history (listings forced on, everything fits): emitted directly, and with the tail of the
// history emitted through Clone + Append at up to three split points (the property is about "any sequence of emitter
// calls"; Clone and Append are emitter calls, and the listing of the parent must still describe the parent's bytes)
func em2C15(in emScript) (*emFail, int) {
	f, ne := em2C15split(in, -1)
	if f != nil {
		return f, ne
	}
	n := len(in.Steps)
	seen := map[int]bool{}
	for _, k := range []int{1, n / 2, n - 1} {
		if k <= 0 || k >= n || seen[k] {
			continue
		}
		seen[k] = true
		f, k2 := em2C15split(in, k)
		ne += k2
		if f != nil {
			return f, ne
		}
	}
	return nil, ne
}

// em2C15split: split < 0 emits the whole history into one emitter; otherwise steps[split:] go to a Clone of the
// emitter that received steps[:split], which is then Appended
func em2C15split(in emScript, split int) (*emFail, int) {
	emCensus()
	in.Gen = true
	sc, ok := em2Premises(in, true)
	if !ok {
		return nil, 0
	}
	a := asm.NewEmitter(emTarget(false, sc.Cap, sc.Fill), true)
	var exp []em2Exp
	base, n := int64(0), 0
	pendingBase := false // a base record no line has followed yet
	orig := a
	for si, st := range sc.Steps {
		if split >= 0 && si == split {
			var cl *asm.Emitter
			if emProtect(func() { cl = orig.Clone(emTarget(false, sc.Cap, sc.Fill+3)) }) {
				return nil, 0
			}
			a = cl
		}
		p, info, err := emDoFlat(a, st)
		if err != nil {
			return nil, 0
		}
		if p {
			if st.K == "bytes" {
				return nil, 0
			}
			continue
		}
		switch st.K {
		case "setbase":
			base = st.V & 0xFFFFFFFF
			exp = append(exp, em2Exp{K: "base", Addr: base})
			pendingBase = true
		case "label":
			exp = append(exp, em2Exp{K: "label", L: st.V})
			pendingBase = false
		case "comment":
			exp = append(exp, em2Exp{K: "comment", L: st.V})
			pendingBase = false
		case "call":
			k, known := em2InsKind[info.Kind]
			if !known {
				return nil, 0
			}
			e := em2Exp{K: k, Off: n, N: len(info.Bytes)}
			if k == "ins2l" || k == "ins3l" {
				e.L = info.Label
			}
			exp = append(exp, e)
			n += len(info.Bytes)
			pendingBase = false
		case "bytes":
			for off := 0; off < len(st.D); off += 16 {
				c := len(st.D) - off
				if c > 16 {
					c = 16
				}
				exp = append(exp, em2Exp{K: "db", Off: n + off, N: c})
			}
			n += len(st.D)
			pendingBase = false // even an empty block is a line for this purpose
		}
	}
	if a != orig {
		if emProtect(func() { orig.Append(a) }) {
			return nil, 0
		}
		a = orig
	}
	if pendingBase { // the base is listed together with the line that follows it; nothing followed
		exp = exp[:len(exp)-1]
	}
	ne := 0
	fail := func(key, d string) *emFail {
		if split >= 0 {
			d = fmt.Sprintf("steps[%d:] emitted through Clone and Appended: %s", split, d)
		}
		return &emFail{Clause: "C15." + key, Key: key, Detail: d, Script: sc}
	}
	if a.Len() != n {
		// not a listing matter (C19 / C06.history); the expected offsets would be meaningless
		return nil, 0
	}
	key, d, k := em2Listing(a, exp, base, "before Finalize")
	ne += k
	if key != "" {
		return fail(key, d), ne
	}
	fin := emFinalize(a)
	key, d, k = em2Listing(a, exp, base, "after Finalize ("+fin.Cls+")")
	ne += k
	if key != "" {
		return fail(key, d), ne
	}
	return nil, ne
}

// ---------------------------------------------------------------- emit2check / emit2replay

func em2Checker(which string) func(emScript) (*emFail, int) {
	switch which {
	case "c06":
		return em2C06
	case "c15":
		return em2C15
	}
	return nil
}

// em2ShrinkFail shrinks a failing history (steps, then capacity), keeping the failure key
func em2ShrinkFail(sc emScript, f *emFail, check func(emScript) (*emFail, int)) *emFail {
	best := f
	only := func(s emScript, _ int) *emFail {
		r, _ := check(s)
		return r
	}
	var shrunk emScript
	if emProtect(func() {
		s, _, r := emShrink(sc, 0, only)
		if r != nil && r.Key == f.Key {
			shrunk, best = s, r
		}
	}) || best == f {
		return best
	}
	t := shrunk
	t.Cap = 0 // the premises raise it to what the history needs
	if !strings.Contains(t.Tag, "nofit") {
		if r, _ := check(t); r != nil && r.Key == best.Key {
			best = r
		}
	}
	return best
}

func em2CheckCmd(args []string) int {
	if len(args) < 4 {
		fmt.Fprintln(os.Stderr, "usage: emit2check <c06|c15> <seed> <count> <tier> [corpus-dir]")
		return 2
	}
	which := args[0]
	check := em2Checker(which)
	if check == nil {
		fmt.Fprintln(os.Stderr, "emit2check: unknown property "+which)
		return 2
	}
	seed, _ := strconv.ParseUint(args[1], 10, 64)
	count, _ := strconv.Atoi(args[2])
	tier := args[3]
	cls, err := emBuildClasses()
	if err != nil {
		fmt.Println("ERROR " + err.Error())
		return 1
	}
	seen := map[string]bool{}
	nh, ne, skipped := 0, 0, 0
	one := func(sc emScript) {
		sc = emFlatOnly(sc)
		nh++
		f, n := check(sc)
		ne += n
		if n == 0 {
			skipped++
		}
		if f == nil || seen[f.Key] {
			return
		}
		f = em2ShrinkFail(sc, f, check)
		seen[f.Key] = true
		b, _ := json.Marshal(f)
		fmt.Printf("FAIL %s\n", b)
	}
	cdir := ""
	if len(args) > 4 {
		cdir = args[4]
	}
	for _, sc := range emLoadCorpus(cdir) {
		one(sc)
	}
	for _, sc := range em2Structured(cls) {
		one(sc)
	}
	g := &emGen{r: &emRng{s: seed*0x9E3779B97F4A7C15 + 0x13579BD}, cls: cls}
	for nh < count {
		tag, ops := g.flat(tier)
		gen := g.r.p(70)
		sz := emSizes(gen, ops)
		_, c := g.capacity(sz)
		one(emScript{Tag: tag, Gen: gen, Cap: c, Fill: g.r.n(256), Steps: ops})
	}
	if skipped > 0 {
		fmt.Fprintf(os.Stderr, "emit2check %s: %d of %d histories outside the premises, not judged\n", which, skipped, nh)
	}
	fmt.Printf("DONE %s histories=%d evaluations=%d failures=%d\n", which, nh, ne, len(seen))
	if len(seen) > 0 {
		return 1
	}
	return 0
}

func em2ReplayCmd(args []string) int {
	if len(args) < 2 {
		fmt.Fprintln(os.Stderr, "usage: emit2replay <c06|c15> <file.json>")
		return 2
	}
	check := em2Checker(args[0])
	if check == nil {
		fmt.Fprintln(os.Stderr, "emit2replay: unknown property "+args[0])
		return 2
	}
	if _, err := emBuildClasses(); err != nil {
		fmt.Println("ERROR " + err.Error())
		return 1
	}
	b, err := os.ReadFile(args[1])
	if err != nil {
		fmt.Println("ERROR " + err.Error())
		return 2
	}
	var f emFail
	if err := json.Unmarshal(b, &f); err != nil {
		fmt.Println("ERROR " + err.Error())
		return 2
	}
	if len(f.Script.Steps) == 0 { // a bare script is accepted too
		var sc emScript
		if json.Unmarshal(b, &sc) == nil && len(sc.Steps) > 0 {
			f.Script = sc
		}
	}
	if r, _ := check(f.Script); r != nil {
		o, _ := json.Marshal(r)
		fmt.Printf("FAIL %s\n", o)
		return 1
	}
	fmt.Println("holds on the current tree")
	return 0
}

func init() {
	commands["emit2cases"] = em2CasesCmd
	commands["emit2check"] = em2CheckCmd
	commands["emit2replay"] = em2ReplayCmd
}
