package main

// Directed case generator and replay for the C01 differential check (Spec816 vs both interpreters).
// Same case / result file format as cputool.go (cases.txt, go65.txt, goalt.txt), plus a header line
// "F <comma separated field names>" in files meant for replay, so that a stored case does not depend
// on the order of the generated field numbering.
//
//   harness speccases -seed S -variants V -progs P -bcd B -fields <names> -out DIR
//   harness specreplay -in FILE -out DIR            (FILE: "F names" line, then "C ..." lines)
//
// speccases produces native-mode (E = 0), interrupt-free, flags-in-{0,1} cases only:
//   * per opcode V single-step cases aimed at the boundaries of its addressing mode: page end,
//     bank end $xxFFFF, top of the address space $FFFFFF, direct page wrap, stack wrap, D.l != 0,
//     index carry across a bank, PC at the end of the program bank; register copies consistent or stale;
//   * B decimal-mode ADC / SBC cases with valid BCD operands (B < 0: all 8-bit operand pairs);
//   * P multi-step programs: width switches (REP / SEP / PLP / RTI / XCE) interleaved with index and
//     accumulator instructions, and block moves run to completion.

import (
	"bufio"
	"flag"
	"fmt"
	"os"
	"sort"
	"strconv"
	"strings"
)

// opcode -> addressing mode / mnemonic as in coq/Spec/ISA.v (the specification side; used only to aim the
// generator at the boundaries of each addressing mode, never to judge a result)
var specModes = [256]string{
	"Imm8", "DpIndX", "Imm8", "Sr", "Dp", "Dp", "Dp", "DpIndL",
	"Imp", "ImmM", "Acc", "Imp", "Abs", "Abs", "Abs", "Long",
	"Rel8", "DpIndY", "DpInd", "SrIndY", "Dp", "DpX", "DpX", "DpIndLY",
	"Imp", "AbsY", "Acc", "Imp", "Abs", "AbsX", "AbsX", "LongX",
	"Abs", "DpIndX", "Long", "Sr", "Dp", "Dp", "Dp", "DpIndL",
	"Imp", "ImmM", "Acc", "Imp", "Abs", "Abs", "Abs", "Long",
	"Rel8", "DpIndY", "DpInd", "SrIndY", "DpX", "DpX", "DpX", "DpIndLY",
	"Imp", "AbsY", "Acc", "Imp", "AbsX", "AbsX", "AbsX", "LongX",
	"Imp", "DpIndX", "Imm8", "Sr", "BlockMove", "Dp", "Dp", "DpIndL",
	"Imp", "ImmM", "Acc", "Imp", "Abs", "Abs", "Abs", "Long",
	"Rel8", "DpIndY", "DpInd", "SrIndY", "BlockMove", "DpX", "DpX", "DpIndLY",
	"Imp", "AbsY", "Imp", "Imp", "Long", "AbsX", "AbsX", "LongX",
	"Imp", "DpIndX", "Rel16", "Sr", "Dp", "Dp", "Dp", "DpIndL",
	"Imp", "ImmM", "Acc", "Imp", "AbsInd", "Abs", "Abs", "Long",
	"Rel8", "DpIndY", "DpInd", "SrIndY", "DpX", "DpX", "DpX", "DpIndLY",
	"Imp", "AbsY", "Imp", "Imp", "AbsIndX", "AbsX", "AbsX", "LongX",
	"Rel8", "DpIndX", "Rel16", "Sr", "Dp", "Dp", "Dp", "DpIndL",
	"Imp", "ImmM", "Imp", "Imp", "Abs", "Abs", "Abs", "Long",
	"Rel8", "DpIndY", "DpInd", "SrIndY", "DpX", "DpX", "DpY", "DpIndLY",
	"Imp", "AbsY", "Imp", "Imp", "Abs", "AbsX", "AbsX", "LongX",
	"ImmX", "DpIndX", "ImmX", "Sr", "Dp", "Dp", "Dp", "DpIndL",
	"Imp", "ImmM", "Imp", "Imp", "Abs", "Abs", "Abs", "Long",
	"Rel8", "DpIndY", "DpInd", "SrIndY", "DpX", "DpX", "DpY", "DpIndLY",
	"Imp", "AbsY", "Imp", "Imp", "AbsX", "AbsX", "AbsY", "LongX",
	"ImmX", "DpIndX", "Imm8", "Sr", "Dp", "Dp", "Dp", "DpIndL",
	"Imp", "ImmM", "Imp", "Imp", "Abs", "Abs", "Abs", "Long",
	"Rel8", "DpIndY", "DpInd", "SrIndY", "DpInd", "DpX", "DpX", "DpIndLY",
	"Imp", "AbsY", "Imp", "Imp", "AbsIndL", "AbsX", "AbsX", "LongX",
	"ImmX", "DpIndX", "Imm8", "Sr", "Dp", "Dp", "Dp", "DpIndL",
	"Imp", "ImmM", "Imp", "Imp", "Abs", "Abs", "Abs", "Long",
	"Rel8", "DpIndY", "DpInd", "SrIndY", "Imm16", "DpX", "DpX", "DpIndLY",
	"Imp", "AbsY", "Imp", "Imp", "AbsIndX", "AbsX", "AbsX", "LongX",
}

var specMnems = [256]string{
	"BRK", "ORA", "COP", "ORA", "TSB", "ORA", "ASL", "ORA",
	"PHP", "ORA", "ASL", "PHD", "TSB", "ORA", "ASL", "ORA",
	"BPL", "ORA", "ORA", "ORA", "TRB", "ORA", "ASL", "ORA",
	"CLC", "ORA", "INC", "TCS", "TRB", "ORA", "ASL", "ORA",
	"JSR", "AND", "JSL", "AND", "BIT", "AND", "ROL", "AND",
	"PLP", "AND", "ROL", "PLD", "BIT", "AND", "ROL", "AND",
	"BMI", "AND", "AND", "AND", "BIT", "AND", "ROL", "AND",
	"SEC", "AND", "DEC", "TSC", "BIT", "AND", "ROL", "AND",
	"RTI", "EOR", "WDM", "EOR", "MVP", "EOR", "LSR", "EOR",
	"PHA", "EOR", "LSR", "PHK", "JMP", "EOR", "LSR", "EOR",
	"BVC", "EOR", "EOR", "EOR", "MVN", "EOR", "LSR", "EOR",
	"CLI", "EOR", "PHY", "TCD", "JML", "EOR", "LSR", "EOR",
	"RTS", "ADC", "PER", "ADC", "STZ", "ADC", "ROR", "ADC",
	"PLA", "ADC", "ROR", "RTL", "JMP", "ADC", "ROR", "ADC",
	"BVS", "ADC", "ADC", "ADC", "STZ", "ADC", "ROR", "ADC",
	"SEI", "ADC", "PLY", "TDC", "JMP", "ADC", "ROR", "ADC",
	"BRA", "STA", "BRL", "STA", "STY", "STA", "STX", "STA",
	"DEY", "BIT", "TXA", "PHB", "STY", "STA", "STX", "STA",
	"BCC", "STA", "STA", "STA", "STY", "STA", "STX", "STA",
	"TYA", "STA", "TXS", "TXY", "STZ", "STA", "STZ", "STA",
	"LDY", "LDA", "LDX", "LDA", "LDY", "LDA", "LDX", "LDA",
	"TAY", "LDA", "TAX", "PLB", "LDY", "LDA", "LDX", "LDA",
	"BCS", "LDA", "LDA", "LDA", "LDY", "LDA", "LDX", "LDA",
	"CLV", "LDA", "TSX", "TYX", "LDY", "LDA", "LDX", "LDA",
	"CPY", "CMP", "REP", "CMP", "CPY", "CMP", "DEC", "CMP",
	"INY", "CMP", "DEX", "WAI", "CPY", "CMP", "DEC", "CMP",
	"BNE", "CMP", "CMP", "CMP", "PEI", "CMP", "DEC", "CMP",
	"CLD", "CMP", "PHX", "STP", "JML", "CMP", "DEC", "CMP",
	"CPX", "SBC", "SEP", "SBC", "CPX", "SBC", "INC", "SBC",
	"INX", "SBC", "NOP", "XBA", "CPX", "SBC", "INC", "SBC",
	"BEQ", "SBC", "SBC", "SBC", "PEA", "SBC", "INC", "SBC",
	"SED", "SBC", "PLX", "XCE", "JSR", "SBC", "INC", "SBC",
}

type specGen struct {
	r     *cpuRng
	names []string
	idx   map[string]int
}

func (g *specGen) set(c *cpuCase, n string, v uint32) {
	if i, ok := g.idx[n]; ok {
		c.regs[i] = uint64(v)
	}
}
func (g *specGen) get(c *cpuCase, n string) uint32 { return uint32(c.regs[g.idx[n]]) }

func (g *specGen) b16() uint32 {
	r := g.r
	if r.n(4) == 0 {
		return uint32(r.next() & 0xFFFF)
	}
	return r.pick(0, 1, 2, 0xFE, 0xFF, 0x100, 0x101, 0x1FF, 0x7FFF, 0x8000, 0xFF00, 0xFF01, 0xFFF0, 0xFFFD, 0xFFFE, 0xFFFF)
}
func (g *specGen) b8() uint32 {
	r := g.r
	if r.n(4) == 0 {
		return uint32(r.next() & 0xFF)
	}
	return r.pick(0, 1, 2, 0x7F, 0x80, 0xFD, 0xFE, 0xFF)
}
func (g *specGen) bcd8() uint32 { return uint32(g.r.n(10) | g.r.n(10)<<4) }

// base state: native mode, no interrupt, flags in {0,1}; m, x given; copies consistent or stale
func (g *specGen) base(id int, m, x uint32) cpuCase {
	r := g.r
	c := cpuCase{id: id, steps: 1, seed: uint32(r.next() & 0xFFFFF), mem: map[uint32]byte{}, opcode: -1}
	c.regs = make([]uint64, len(g.names))
	g.set(&c, "E", 0)
	g.set(&c, "Interrupt", 1)
	g.set(&c, "M", m)
	g.set(&c, "X", x)
	for _, f := range []string{"C", "Z", "N", "V", "I", "B"} {
		g.set(&c, f, uint32(r.n(2)))
	}
	a, xv, yv := g.b16(), g.b16(), g.b16()
	if x == 1 {
		xv &= 0xFF
		yv &= 0xFF
	}
	g.setA(&c, a, r.n(2) == 0)
	g.setXY(&c, xv, yv, r.n(2) == 0)
	g.set(&c, "RD", r.pick(0, 0, 0, 1, 0xFF, 0x100, 0xFF00, 0xFF01, 0xFFFF, 0xFFFE, g.b16()))
	g.set(&c, "SP", r.pick(0x01FF, 0x01FF, 0x0100, 0, 1, 2, 0xFFFF, 0xFFFE, 0xFFFD, 0x00FF, g.b16()))
	g.set(&c, "RDBR", r.pick(0, 1, 0x7E, 0x7F, 0xFE, 0xFF, 0xFF, g.b8()))
	g.set(&c, "RK", r.pick(0, 0, 1, 0x7E, 0x80, 0xFE, 0xFF, g.b8()))
	pc := uint32(r.next() & 0xFFFF)
	if r.n(4) == 0 {
		pc = r.pick(0xFFFC, 0xFFFD, 0xFFFE, 0xFFFF, 0x00FE, 0x00FF, 0x7FFF)
	}
	g.set(&c, "PC", pc)
	// scratch fields of the Go structs: arbitrary
	g.set(&c, "Cycles", g.b8())
	g.set(&c, "stepPC", g.b16())
	g.set(&c, "PPC", g.b16())
	g.set(&c, "PRK", g.b8())
	g.set(&c, "WDM", g.b8())
	g.set(&c, "StepInfo_EA", uint32(r.next()&0xFFFFFF))
	g.set(&c, "StepInfo_Addr", g.b16())
	g.set(&c, "StepInfo_Mode", g.b8())
	if i, ok := g.idx["AllCycles"]; ok {
		c.regs[i] = r.next() & 0xFFFFFFFF
	}
	return c
}

// architectural A (16 bits) into the copy that is authoritative under m; the other copy consistent or stale
func (g *specGen) setA(c *cpuCase, a uint32, consistent bool) {
	if g.get(c, "M") == 1 {
		g.set(c, "RAl", a&0xFF)
		g.set(c, "RAh", a>>8)
		if consistent {
			g.set(c, "RA", a)
		} else {
			g.set(c, "RA", g.b16())
		}
	} else {
		g.set(c, "RA", a)
		if consistent {
			g.set(c, "RAl", a&0xFF)
			g.set(c, "RAh", a>>8)
		} else {
			g.set(c, "RAl", g.b8())
			g.set(c, "RAh", g.b8())
		}
	}
}
func (g *specGen) setXY(c *cpuCase, xv, yv uint32, consistent bool) {
	if g.get(c, "X") == 1 {
		g.set(c, "RXl", xv&0xFF)
		g.set(c, "RYl", yv&0xFF)
		if consistent {
			g.set(c, "RX", xv&0xFF)
			g.set(c, "RY", yv&0xFF)
		} else {
			g.set(c, "RX", g.b16())
			g.set(c, "RY", g.b16())
		}
	} else {
		g.set(c, "RX", xv)
		g.set(c, "RY", yv)
		if consistent {
			g.set(c, "RXl", xv&0xFF)
			g.set(c, "RYl", yv&0xFF)
		} else {
			g.set(c, "RXl", g.b8())
			g.set(c, "RYl", g.b8())
		}
	}
}
func (g *specGen) archX(c *cpuCase) uint32 {
	if g.get(c, "X") == 1 {
		return g.get(c, "RXl")
	}
	return g.get(c, "RX")
}
func (g *specGen) archY(c *cpuCase) uint32 {
	if g.get(c, "X") == 1 {
		return g.get(c, "RYl")
	}
	return g.get(c, "RY")
}

func put16w(c *cpuCase, bank, off, v uint32) { // 16-bit value at bank:off, second byte wrapping inside the bank
	c.mem[bank<<16|off&0xFFFF] = byte(v)
	c.mem[bank<<16|(off+1)&0xFFFF] = byte(v >> 8)
}

// one single-step case for opcode op aimed at a boundary of its addressing mode
func (g *specGen) directed(id, op int) cpuCase {
	r := g.r
	m, x := uint32(r.n(2)), uint32(r.n(2))
	c := g.base(id, m, x)
	c.opcode = op
	mode, mn := specModes[op], specMnems[op]
	decimal := (mn == "ADC" || mn == "SBC") && r.n(3) == 0
	g.set(&c, "D", 0)
	if decimal {
		g.set(&c, "D", 1)
		g.setA(&c, g.bcd8()|g.bcd8()<<8, r.n(2) == 0)
	} else if r.n(8) == 0 {
		g.set(&c, "D", 1) // d = 1 must not disturb anything but ADC / SBC
		if mn == "ADC" || mn == "SBC" {
			g.set(&c, "D", 0)
		}
	}
	k, pc := g.get(&c, "RK"), g.get(&c, "PC")
	dbr, d, sp := g.get(&c, "RDBR"), g.get(&c, "RD"), g.get(&c, "SP")
	xv, yv := g.archX(&c), g.archY(&c)
	o1, o2, o3 := g.b8(), g.b8(), g.b8()
	// choose where the access should land (low 16 bits) and aim the operand / pointer at it
	target := r.pick(0xFFFF, 0xFFFE, 0xFFFF, 0x0000, 0x00FF, 0x0100, g.b16())
	ptr := target // pointer value for indirect modes
	tag := "plain"
	switch mode {
	case "Dp", "DpX", "DpY", "DpInd", "DpIndL", "DpIndX", "DpIndY", "DpIndLY":
		idx := uint32(0)
		if mode == "DpX" || mode == "DpIndX" {
			idx = xv
		}
		if mode == "DpY" {
			idx = yv
		}
		if r.n(2) == 0 { // direct page location itself at the bank-0 boundary
			o1 = (target - d - idx) & 0xFF
			if (d+o1+idx)&0xFFFF == target {
				tag = "dp_at_target"
			}
		}
		loc := (d + o1 + idx) & 0xFFFF
		if loc >= 0xFFFE {
			tag = "dp_wraps_bank0"
		}
		switch mode {
		case "DpIndY":
			if r.n(2) == 0 {
				ptr = (target - yv) & 0xFFFF
			}
			if ptr+yv > 0xFFFF {
				tag = "index_carries_into_next_bank"
			}
			put16w(&c, 0, loc, ptr)
		case "DpInd", "DpIndX":
			put16w(&c, 0, loc, ptr)
		case "DpIndL", "DpIndLY":
			bank := r.pick(dbr, 0xFF, 0xFF, 0x7E, 0)
			put16w(&c, 0, loc, ptr)
			c.mem[(loc+2)&0xFFFF] = byte(bank)
			if mode == "DpIndLY" && bank == 0xFF && ptr+yv > 0xFFFF {
				tag = "wraps_top_of_space"
			}
		}
	case "Sr", "SrIndY":
		if r.n(2) == 0 {
			o1 = (target - sp) & 0xFF
		}
		loc := (sp + o1) & 0xFFFF
		if loc >= 0xFFFE {
			tag = "sr_wraps_bank0"
		}
		if mode == "SrIndY" {
			if r.n(2) == 0 {
				ptr = (target - yv) & 0xFFFF
			}
			put16w(&c, 0, loc, ptr)
			if ptr+yv > 0xFFFF {
				tag = "index_carries_into_next_bank"
			}
		}
	case "Abs", "AbsX", "AbsY", "AbsInd", "AbsIndL", "AbsIndX":
		idx := uint32(0)
		if mode == "AbsX" || mode == "AbsIndX" {
			idx = xv
		}
		if mode == "AbsY" {
			idx = yv
		}
		a := target
		if r.n(2) == 0 {
			a = (target - idx) & 0xFFFF
		}
		o1, o2 = a&0xFF, a>>8
		if a+idx > 0xFFFF && (mode == "AbsX" || mode == "AbsY") {
			tag = "index_carries_into_next_bank"
			if dbr == 0xFF {
				tag = "wraps_top_of_space"
			}
		}
		switch mode {
		case "AbsInd":
			put16w(&c, 0, a, g.b16())
		case "AbsIndL":
			put16w(&c, 0, a, g.b16())
			c.mem[(a+2)&0xFFFF] = byte(g.b8())
		case "AbsIndX":
			put16w(&c, k, (a+idx)&0xFFFF, g.b16())
			if (a+idx)&0xFFFF == 0xFFFF {
				tag = "pointer_wraps_in_program_bank"
			}
		}
	case "Long", "LongX":
		bank := r.pick(0xFF, 0xFF, dbr, 0x7E, 0)
		a := target
		if mode == "LongX" && r.n(2) == 0 {
			a = (target - xv) & 0xFFFF
		}
		o1, o2, o3 = a&0xFF, a>>8, bank
		if mode == "LongX" && a+xv > 0xFFFF && bank == 0xFF {
			tag = "wraps_top_of_space"
		}
	case "BlockMove":
		// a few bytes only, so that single steps see both "continue" and "done"
		g.setA(&c, r.pick(0, 0, 1, 2, 0xFFFF, 0x100, g.b16()), r.n(2) == 0)
	case "Rel8", "Rel16":
		o1, o2 = r.pick(0, 1, 0x7F, 0x80, 0xFE, 0xFF, g.b8()), r.pick(0, 0x7F, 0x80, 0xFF, g.b8())
	case "Imm8":
		if mn == "REP" || mn == "SEP" {
			o1 = r.pick(0x10, 0x20, 0x30, 0xFF, 0x00, 0xCF, g.b8())
		}
	}
	if decimal {
		// valid BCD wherever the operand may be read from (both wrap interpretations)
		if mode == "ImmM" {
			o1, o2 = g.bcd8(), g.bcd8()
		}
		c.tag = "decimal"
	}
	c.mem[k<<16|pc] = byte(op)
	c.mem[k<<16|(pc+1)&0xFFFF] = byte(o1)
	c.mem[k<<16|(pc+2)&0xFFFF] = byte(o2)
	c.mem[k<<16|(pc+3)&0xFFFF] = byte(o3)
	// stack contents for pulls: flags byte choices that switch widths
	switch mn {
	case "PLP", "RTI":
		c.mem[(sp+1)&0xFFFF] = byte(r.pick(0x00, 0x10, 0x20, 0x30, 0xFF, 0xCF, g.b8()))
	}
	if pc+3 > 0xFFFF && tag == "plain" {
		tag = "pc_at_end_of_bank"
	}
	if sp <= 2 || sp >= 0xFFFD {
		switch mn {
		case "PHA", "PHX", "PHY", "PHP", "PHB", "PHD", "PHK", "PEA", "PEI", "PER", "PLA", "PLX", "PLY", "PLP", "PLB", "PLD",
			"JSR", "JSL", "RTS", "RTL", "RTI", "BRK", "COP":
			tag = "stack_wraps_bank0"
		}
	}
	if c.tag == "" {
		c.tag = tag
	}
	return c
}

// decimal ADC / SBC immediate with valid BCD operands
func (g *specGen) bcdCase(id int, sbc bool, wide bool, a, b, carry uint32) cpuCase {
	m := uint32(1)
	if wide {
		m = 0
	}
	c := g.base(id, m, uint32(g.r.n(2)))
	g.set(&c, "D", 1)
	g.set(&c, "C", carry)
	g.setA(&c, a, g.r.n(2) == 0)
	if !wide { // hidden B arbitrary
		g.set(&c, "RAh", g.b8())
	}
	op := 0x69
	if sbc {
		op = 0xE9
	}
	c.opcode = op
	k, pc := g.get(&c, "RK"), g.get(&c, "PC")
	c.mem[k<<16|pc] = byte(op)
	c.mem[k<<16|(pc+1)&0xFFFF] = byte(b)
	c.mem[k<<16|(pc+2)&0xFFFF] = byte(b >> 8)
	c.mem[k<<16|(pc+3)&0xFFFF] = 0xEA
	c.tag = "decimal"
	return c
}

// multi-step programs: width switches and block moves
func (g *specGen) program(id int) cpuCase {
	r := g.r
	c := g.base(id, uint32(r.n(2)), uint32(r.n(2)))
	g.set(&c, "D", 0)
	k := g.get(&c, "RK")
	pc := uint32(0x8000 + r.n(0x4000))
	g.set(&c, "PC", pc)
	g.set(&c, "SP", r.pick(0x01FF, 0x1FF0, 0x0003, 0xFFFE, 0x0100))
	var code []byte
	emit := func(bs ...byte) { code = append(code, bs...) }
	steps := 0
	if r.n(3) == 0 {
		// block move of n+1 bytes, run to completion, then a transfer that shows C
		n := uint32(r.n(6))
		g.setA(&c, n, r.n(2) == 0)
		if g.get(&c, "M") == 1 { // count lives in B:A; B = 0 so that the move is short
			g.set(&c, "RAh", 0)
			g.set(&c, "RAl", n)
		} else {
			g.set(&c, "RA", n)
		}
		xv, yv := r.pick(0xFFFD, 0xFFFF, 0x0000, 0x0002, 0x00FE, 0x1000), r.pick(0xFFFE, 0x0001, 0x00FF, 0x2000, 0xFFFF)
		if g.get(&c, "X") == 1 {
			xv &= 0xFF
			yv &= 0xFF
		}
		g.setXY(&c, xv, yv, r.n(2) == 0)
		op := byte(0x54)
		if r.n(2) == 0 {
			op = 0x44
		}
		dstBank := byte(r.pick(0x7F, 0x00, 0xFF, 0x01))
		if r.n(4) == 0 && g.get(&c, "X") == 0 {
			// a move that overwrites its OWN bank operands (destination = the program bank, Y = address of the first
			// operand byte): every repetition must use the operand bytes as they are in memory at that moment
			dstBank = byte(k)
			n = 1
			g.setA(&c, n, r.n(2) == 0)
			if g.get(&c, "M") == 1 {
				g.set(&c, "RAh", 0)
				g.set(&c, "RAl", n)
			} else {
				g.set(&c, "RA", n)
			}
			yv = (pc + 1) & 0xFFFF
			if op == 0x44 { // MVP moves downwards: start at the second operand byte
				yv = (pc + 2) & 0xFFFF
			}
			g.setXY(&c, xv, yv, r.n(2) == 0)
			c.tag = "prog_blockmove_selfmod"
		}
		emit(op, dstBank, byte(r.pick(0x7E, 0x00, 0xFF, 0x02)))
		steps = int(n) + 1
		emit(0xAA, 0xA8, 0x8B, 0xEA) // TAX TAY PHB NOP
		steps += 4
		if c.tag == "" {
			c.tag = "prog_blockmove"
		}
	} else {
		// width-switch programme
		n := 6 + r.n(14)
		for i := 0; i < n; i++ {
			switch r.n(16) {
			case 0:
				emit(0xC2, byte(r.pick(0x10, 0x20, 0x30, 0x31, 0xFF))) // REP
			case 1:
				emit(0xE2, byte(r.pick(0x10, 0x20, 0x30, 0x31, 0xFF))) // SEP
			case 2:
				emit(0x08) // PHP
			case 3:
				emit(0x28) // PLP
			case 4:
				emit(0xE8) // INX
			case 5:
				emit(0x88) // DEY
			case 6:
				emit(0x8A) // TXA
			case 7:
				emit(0xA8) // TAY
			case 8:
				emit(0xEB) // XBA
			case 9:
				emit(0x9B) // TXY
			case 10:
				emit(0x1A) // INC A
			case 11:
				emit(0xDA) // PHX
			case 12:
				emit(0x7A) // PLY
			case 13:
				emit(0x48) // PHA
			case 14:
				emit(0xFA) // PLX
			case 15:
				emit(0xBA) // TSX
			}
		}
		steps = n
		for i := 0; i < 4; i++ {
			emit(0xEA)
		}
		c.tag = "prog_width_switch"
	}
	for i, b := range code {
		c.mem[k<<16|(pc+uint32(i))&0xFFFF] = b
	}
	c.steps = steps
	return c
}

func specEmit(c cpuCase, names []string, r65 *run65, rAlt *runAlt, wc, w65, wAlt *bufio.Writer, stats map[string]int) {
	fmt.Fprintln(wc, c.line(names))
	a := r65.run(&c, names)
	b := rAlt.run(&c, names)
	for i := range a {
		fmt.Fprintln(w65, a[i].line(c.id, i))
	}
	for i := range b {
		fmt.Fprintln(wAlt, b[i].line(c.id, i))
	}
	stats["cases"]++
	stats["steps"] += len(a)
	if c.tag != "" {
		stats["tag_"+c.tag]++
	}
}

func specCasesCmd(args []string) int {
	fs := flag.NewFlagSet("speccases", flag.ExitOnError)
	seed := fs.Uint64("seed", 1, "")
	variants := fs.Int("variants", 8, "directed single-step cases per opcode")
	progs := fs.Int("progs", 100, "multi-step programs")
	bcd := fs.Int("bcd", 500, "decimal ADC/SBC cases with valid BCD operands (negative: all 8-bit pairs, plus -bcd 16-bit samples)")
	fieldsArg := fs.String("fields", "", "")
	outDir := fs.String("out", ".", "")
	first := fs.Int("firstid", 1000000, "first case id")
	fs.Parse(args)
	names := strings.Split(*fieldsArg, ",")
	g := &specGen{r: &cpuRng{s: *seed*0x9E3779B97F4A7C15 + 0x7654321}, names: names, idx: map[string]int{}}
	for i, n := range names {
		g.idx[n] = i
	}
	r65, rAlt := newRun65(), newRunAlt()
	fc, _ := os.Create(*outDir + "/cases.txt")
	f65, _ := os.Create(*outDir + "/go65.txt")
	fAlt, _ := os.Create(*outDir + "/goalt.txt")
	wc, w65, wAlt := bufio.NewWriter(fc), bufio.NewWriter(f65), bufio.NewWriter(fAlt)
	defer func() {
		wc.Flush()
		w65.Flush()
		wAlt.Flush()
		fc.Close()
		f65.Close()
		fAlt.Close()
	}()
	stats := map[string]int{}
	id := *first
	for v := 0; v < *variants; v++ {
		for op := 0; op < 256; op++ {
			specEmit(g.directed(id, op), names, r65, rAlt, wc, w65, wAlt, stats)
			id++
		}
	}
	nb := *bcd
	if nb < 0 {
		for a := uint32(0); a < 100; a++ {
			for b := uint32(0); b < 100; b++ {
				for cy := uint32(0); cy < 2; cy++ {
					for _, sbc := range []bool{false, true} {
						specEmit(g.bcdCase(id, sbc, false, a%10|a/10<<4, b%10|b/10<<4, cy), names, r65, rAlt, wc, w65, wAlt, stats)
						id++
					}
				}
			}
		}
		nb = -nb
	}
	for i := 0; i < nb; i++ {
		wide := i%2 == 0
		a, b := g.bcd8(), g.bcd8()
		if wide {
			a |= g.bcd8() << 8
			b |= g.bcd8() << 8
			if g.r.n(4) == 0 {
				a, b = g.r.pick(0x9999, 0x0999, 0x0099, 0x0009, 0x0000, 0x1000), g.r.pick(0x0001, 0x9999, 0x0010, 0x0100, 0x1000, 0x0000)
			}
		}
		specEmit(g.bcdCase(id, g.r.n(2) == 0, wide, a, b, uint32(g.r.n(2))), names, r65, rAlt, wc, w65, wAlt, stats)
		id++
	}
	for i := 0; i < *progs; i++ {
		specEmit(g.program(id), names, r65, rAlt, wc, w65, wAlt, stats)
		id++
	}
	keys := make([]string, 0, len(stats))
	for k := range stats {
		keys = append(keys, k)
	}
	sort.Strings(keys)
	for _, k := range keys {
		fmt.Printf("STAT %s %d\n", k, stats[k])
	}
	return 0
}

// specreplay: run stored cases (corpus, replay files) on both real interpreters
func specReplayCmd(args []string) int {
	fs := flag.NewFlagSet("specreplay", flag.ExitOnError)
	in := fs.String("in", "", "")
	outDir := fs.String("out", ".", "")
	fs.Parse(args)
	f, err := os.Open(*in)
	if err != nil {
		fmt.Fprintln(os.Stderr, err)
		return 2
	}
	defer f.Close()
	sc := bufio.NewScanner(f)
	sc.Buffer(make([]byte, 1<<20), 1<<24)
	var names []string
	r65, rAlt := newRun65(), newRunAlt()
	fc, _ := os.Create(*outDir + "/cases.txt")
	f65, _ := os.Create(*outDir + "/go65.txt")
	fAlt, _ := os.Create(*outDir + "/goalt.txt")
	wc, w65, wAlt := bufio.NewWriter(fc), bufio.NewWriter(f65), bufio.NewWriter(fAlt)
	defer func() {
		wc.Flush()
		w65.Flush()
		wAlt.Flush()
		fc.Close()
		f65.Close()
		fAlt.Close()
	}()
	stats := map[string]int{}
	for sc.Scan() {
		line := strings.TrimSpace(sc.Text())
		if line == "" || strings.HasPrefix(line, "#") {
			continue
		}
		if strings.HasPrefix(line, "F ") {
			names = strings.Split(strings.TrimSpace(line[2:]), ",")
			fmt.Printf("FIELDS %s\n", strings.Join(names, ","))
			continue
		}
		toks := strings.Fields(line)
		if toks[0] != "C" || names == nil {
			fmt.Fprintln(os.Stderr, "bad line:", line)
			return 2
		}
		c := cpuCase{mem: map[uint32]byte{}, opcode: -1}
		c.id, _ = strconv.Atoi(toks[1])
		c.steps, _ = strconv.Atoi(toks[2])
		s, _ := strconv.ParseUint(toks[3], 10, 32)
		c.seed = uint32(s)
		c.onwdm = toks[4] == "1"
		i := 6
		for ; toks[i] != "M"; i++ {
			v, _ := strconv.ParseUint(toks[i], 10, 64)
			c.regs = append(c.regs, v)
		}
		for i++; toks[i] != "P"; i++ {
			kv := strings.Split(toks[i], "=")
			a, _ := strconv.ParseUint(kv[0], 10, 32)
			v, _ := strconv.ParseUint(kv[1], 10, 8)
			c.mem[uint32(a)] = byte(v)
		}
		for i++; i < len(toks); i++ {
			a, _ := strconv.ParseUint(toks[i], 10, 32)
			c.onpc = append(c.onpc, uint32(a))
		}
		if len(c.regs) != len(names) {
			fmt.Fprintln(os.Stderr, "field count mismatch in case", c.id)
			return 2
		}
		specEmit(c, names, r65, rAlt, wc, w65, wAlt, stats)
	}
	fmt.Printf("STAT cases %d\n", stats["cases"])
	return 0
}

func init() {
	commands["speccases"] = specCasesCmd
	commands["specreplay"] = specReplayCmd
}
