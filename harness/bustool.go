package main

// C13: emulator/bus (Attach / EaRead / EaWrite / EaDump) with emulator/memory RAM and ROM.
//
//	buscases <seed> <quick|thorough> <corpusdir>   run scripts of bus operations on the REAL code with
//	                                               instrumented memories, print inputs + observations (JSON lines)
//	buscheck <seed> <quick|thorough>               falsifier: the property stated directly (no model)
//	busreplay <json>                               one falsifier scenario
import (
	"encoding/json"
	"fmt"
	"os"
	"path/filepath"
	"sort"
	"strings"

	"github.com/alttpo/snes/emulator/bus"
	"github.com/alttpo/snes/emulator/memory"
)

type busRng struct{ s uint64 }

func (r *busRng) next() uint64 {
	r.s += 0x9E3779B97F4A7C15
	z := r.s
	z = (z ^ (z >> 30)) * 0xBF58476D1CE4E5B9
	z = (z ^ (z >> 27)) * 0x94D049BB133111EB
	return z ^ (z >> 31)
}
func (r *busRng) n(k int) int { return int(r.next() % uint64(k)) }
func (r *busRng) pick(v ...int) int {
	return v[r.n(len(v))]
}

// ---------------------------------------------------------------- instrumented memories
type busEv struct {
	ID   int
	Kind int // 0 read, 1 write
	A    uint32
	V    byte
}

// what a recorder without a backing memory answers (Model/Bus.v rec_val)
func busRecVal(id int, a uint32) byte {
	return byte((uint64(a) + uint64(a>>8)*3 + uint64(id)*37) & 0xff)
}

type busRec struct {
	id    int
	inner memory.Memory // nil: pure recorder
	log   *[]busEv
}

func (m *busRec) Read(a uint32) byte {
	*m.log = append(*m.log, busEv{m.id, 0, a, 0})
	if m.inner == nil {
		return busRecVal(m.id, a)
	}
	return m.inner.Read(a)
}
func (m *busRec) Write(a uint32, v byte) {
	*m.log = append(*m.log, busEv{m.id, 1, a, v})
	if m.inner != nil {
		m.inner.Write(a, v)
	}
}
func (m *busRec) Shutdown()            {}
func (m *busRec) Size() uint32         { return 0 }
func (m *busRec) Clear()               {}
func (m *busRec) Dump(a uint32) []byte { return nil }

// ---------------------------------------------------------------- cases
type busMem struct {
	ID   int    `json:"id"`
	Kind string `json:"kind"` // rec | ram | rom
	Off  uint32 `json:"off"`
	Data []int  `json:"data,omitempty"` // explicit contents, or (when absent) the pattern busFill(Seed, i), i < Size
	Seed int    `json:"seed"`
	Size int    `json:"size"`
	Dig  uint64 `json:"dig,omitempty"` // final contents (digest), in busCase.Final
}

// Model/Bus.v fill_byte
func busFill(seed, i int) int { return (seed + i*7 + (i/16)*3) & 0xff }

// Model/Bus.v mixz
func busMix(h, v uint64) uint64 { return (h*1000003 + v + 1) & (1<<63 - 1) }

func (m *busMem) bytes() []byte {
	if m.Data != nil || m.Size == 0 {
		d := make([]byte, len(m.Data))
		for i, v := range m.Data {
			d[i] = byte(v)
		}
		return d
	}
	d := make([]byte, m.Size)
	for i := range d {
		d[i] = byte(busFill(m.Seed, i))
	}
	return d
}

type busOp struct {
	Op   string `json:"op"` // attach | read | write | dump
	M    int    `json:"m,omitempty"`
	S    uint32 `json:"s,omitempty"`
	E    uint32 `json:"e,omitempty"`
	A    uint32 `json:"a,omitempty"`
	V    int    `json:"v,omitempty"`
	Len  int    `json:"len,omitempty"`  // dump: len(data)
	Sent int    `json:"sent,omitempty"` // dump: data pre-filled with this byte
	Obs  int    `json:"obs"`            // attach 0 nil/1 error/2 panic; read byte|-1; write 0|-1; dump n|-1
	Out  uint64 `json:"out,omitempty"`  // dump: digest of data afterwards (0 after a panic)
}

type busCase struct {
	Name  string   `json:"name"`
	Mems  []busMem `json:"mems"`
	Ops   []busOp  `json:"ops"`
	LogN  int      `json:"logn"`
	Log   uint64   `json:"log"` // digest of the ordered (id, kind, address, value) events
	Final []busMem `json:"final"`
	Feat  []string `json:"feat"`
}

type busWorld struct {
	b     *bus.Bus
	mems  map[int]*busRec
	backs map[int][]byte
	log   []busEv
	used  [][2]uint32 // aligned ranges handed to Attach (to clear the pooled bus afterwards)
}

// bus.New allocates a 16 MB table; one bus is reused and its touched blocks are cleared by release()
var busPool *bus.Bus

func busNewWorld(mems []busMem) *busWorld {
	b := busPool
	busPool = nil
	if b == nil {
		b, _ = bus.New()
	}
	w := &busWorld{b: b, mems: map[int]*busRec{}, backs: map[int][]byte{}}
	for _, m := range mems {
		r := &busRec{id: m.ID, log: &w.log}
		if m.Kind == "ram" || m.Kind == "rom" {
			d := m.bytes()
			w.backs[m.ID] = d
			if m.Kind == "ram" {
				r.inner = memory.NewRAM(d, m.Off)
			} else {
				r.inner = memory.NewROM(d, m.Off)
			}
		}
		w.mems[m.ID] = r
	}
	return w
}

func (w *busWorld) mem(id int) *busRec {
	if m, ok := w.mems[id]; ok {
		return m
	}
	m := &busRec{id: id, log: &w.log}
	w.mems[id] = m
	return m
}

func (w *busWorld) release() {
	// the table is cleared through the code under test, so do not trust it: the bus goes back to the pool
	// only if clearing neither failed nor left anything behind at the edges of the ranges used
	clean := func() (ok bool) {
		defer func() {
			if recover() != nil {
				ok = false
			}
		}()
		for _, u := range w.used {
			e := u[1]
			if e > 0xffffff {
				e = 0xffffff
			}
			if u[0] <= e {
				if w.b.Attach(nil, "", u[0], e) != nil {
					return false
				}
			}
		}
		for _, u := range w.used {
			for _, a := range []uint32{u[0] - 16, u[0] - 1, u[0], u[0] + 16, u[1] - 16, u[1], u[1] + 1, u[1] + 16, u[1] + 32} {
				if a < 1<<24 && w.read(a) != -1 {
					return false
				}
			}
		}
		return true
	}()
	if clean {
		w.b.EA, w.b.Write = 0, false
		busPool = w.b
	}
	w.b = nil
}

func (w *busWorld) attach(id int, s, e uint32) (obs int) {
	if s&0xf == 0 && (e+1)&0xf == 0 {
		w.used = append(w.used, [2]uint32{s, e})
	}
	defer func() {
		if recover() != nil {
			obs = 2
		}
	}()
	if err := w.b.Attach(w.mem(id), "m", s, e); err != nil {
		return 1
	}
	return 0
}
func (w *busWorld) read(a uint32) (obs int) {
	defer func() {
		if recover() != nil {
			obs = -1
		}
	}()
	return int(w.b.EaRead(a))
}
func (w *busWorld) write(a uint32, v byte) (obs int) {
	defer func() {
		if recover() != nil {
			obs = -1
		}
	}()
	w.b.EaWrite(a, v)
	return 0
}
func (w *busWorld) read24(a uint32) (obs int64) {
	defer func() {
		if recover() != nil {
			obs = -1
		}
	}()
	return int64(w.b.EaRead24_wrap(byte(a>>16), uint16(a)))
}
func (w *busWorld) dump(s, e uint32, data []byte) (n int) {
	defer func() {
		if recover() != nil {
			n = -1
		}
	}()
	return w.b.EaDump(s, e, data)
}

// run the script on the real code, filling in the observations
func busRun(c *busCase) {
	w := busNewWorld(c.Mems)
	for i := range c.Ops {
		o := &c.Ops[i]
		switch o.Op {
		case "attach":
			o.Obs = w.attach(o.M, o.S, o.E)
		case "read":
			o.Obs = w.read(o.A)
		case "write":
			o.Obs = w.write(o.A, byte(o.V))
		case "read24":
			o.Obs = int(w.read24(o.A))
		case "dump":
			data := make([]byte, o.Len)
			for j := range data {
				data[j] = byte(o.Sent)
			}
			o.Obs = w.dump(o.S, o.E, data)
			o.Out = 0
			if o.Obs >= 0 {
				for _, v := range data {
					o.Out = busMix(o.Out, uint64(v))
				}
			}
		}
	}
	c.LogN = len(w.log)
	c.Log = 0
	for _, e := range w.log {
		c.Log = busMix(busMix(busMix(busMix(c.Log, uint64(e.ID)), uint64(e.Kind)), uint64(e.A)), uint64(e.V))
	}
	c.Final = nil
	for _, m := range c.Mems {
		if d, ok := w.backs[m.ID]; ok {
			f := busMem{ID: m.ID, Kind: m.Kind, Off: m.Off, Size: len(d)}
			for _, v := range d {
				f.Dig = busMix(f.Dig, uint64(v))
			}
			c.Final = append(c.Final, f)
		}
	}
	c.Feat = busFeatures(c)
	w.release()
}

// which non-default paths a case exercises (for the measured distribution)
func busFeatures(c *busCase) []string {
	f := map[string]bool{}
	type rng struct {
		m    int
		s, e uint32
	}
	var ok []rng
	owner := func(a uint32) int {
		for i := len(ok) - 1; i >= 0; i-- {
			if ok[i].s <= a && a <= ok[i].e {
				return ok[i].m
			}
		}
		return 0
	}
	for _, o := range c.Ops {
		switch o.Op {
		case "attach":
			switch o.Obs {
			case 1:
				if o.S&0xf != 0 {
					f["attach-misaligned-start"] = true
				} else {
					f["attach-misaligned-end"] = true
				}
			case 2:
				f["attach-panic"] = true
			default:
				if o.E < o.S {
					f["attach-empty-range"] = true
				}
				for _, r := range ok {
					if r.s <= o.E && o.S <= r.e {
						if r.m == o.M {
							f["attach-reattach"] = true
						} else {
							f["attach-overlap"] = true
						}
					}
					if r.e+1 == o.S || o.E+1 == r.s {
						f["attach-adjacent"] = true
					}
				}
				if o.E >= o.S {
					ok = append(ok, rng{o.M, o.S, o.E})
				}
			}
		case "read24":
			if o.Obs == -1 {
				f["read24-fails"] = true
			} else {
				f["read24"] = true
			}
			if o.A&0xffff >= 0xfffe {
				f["read24-wraps-in-bank"] = true
			}
		case "read", "write":
			if o.Obs == -1 {
				if o.A >= 1<<24 {
					f[o.Op+"-beyond-table"] = true
				} else if owner(o.A) == 0 {
					f[o.Op+"-unattached"] = true
				} else {
					f[o.Op+"-memory-panic"] = true
				}
			} else {
				f[o.Op+"-ok"] = true
				if o.A&0xf == 0 || o.A&0xf == 0xf {
					f[o.Op+"-block-edge"] = true
				}
			}
		case "dump":
			if o.S&0xf != 0 {
				f["dump-unaligned-start"] = true
			} else {
				f["dump-aligned-start"] = true
			}
			if (o.E+1)&0xf != 0 {
				f["dump-unaligned-end"] = true
			}
			if o.Obs == -1 {
				f["dump-panic"] = true
			}
			if o.S>>4 != o.E>>4 {
				f["dump-multi-segment"] = true
			}
			owners := map[int]bool{}
			for a := o.S; a <= o.E && a >= o.S; a++ {
				owners[owner(a)] = true
				if a == 0xffffffff {
					break
				}
			}
			if owners[0] {
				f["dump-hole"] = true
				delete(owners, 0)
			}
			if len(owners) > 1 {
				f["dump-cross-memory"] = true
			}
			if o.Len < int(o.E-o.S+1) {
				f["dump-data-short"] = true
			}
		}
	}
	var out []string
	for k := range f {
		out = append(out, k)
	}
	sort.Strings(out)
	return out
}

// ---------------------------------------------------------------- generator
type busGen struct {
	r    *busRng
	c    busCase
	next int
	rngs [][3]uint32 // (mem, start, end) of the aligned attaches issued so far
}

func (g *busGen) newMem(kind string, off uint32, size int) int {
	g.next++
	m := busMem{ID: g.next, Kind: kind, Off: off}
	if kind != "rec" {
		m.Seed, m.Size = g.r.n(256), size
	}
	g.c.Mems = append(g.c.Mems, m)
	return m.ID
}

func (g *busGen) kind() string { return []string{"rec", "rec", "ram", "ram", "rom"}[g.r.n(5)] }

// an aligned attach of a fresh memory over [s, e]; RAM/ROM slices usually fit the range exactly
func (g *busGen) attachFresh(s, e uint32) {
	k := g.kind()
	size := int(e - s + 1)
	off := s
	if k != "rec" {
		switch g.r.n(8) {
		case 0:
			size -= 1 + g.r.n(16) // slice shorter than the range: reads at the top panic
			if size < 0 {
				size = 0
			}
		case 1:
			off = s + 16 // offset above the range start: address-offset wraps
		}
		if size > 4096 {
			size = 4096
		}
	}
	id := g.newMem(k, off, size)
	g.attach(id, s, e)
}

func (g *busGen) attach(id int, s, e uint32) {
	g.c.Ops = append(g.c.Ops, busOp{Op: "attach", M: id, S: s, E: e})
	if s&0xf == 0 && (e+1)&0xf == 0 && s <= e {
		g.rngs = append(g.rngs, [3]uint32{uint32(id), s, e})
	}
}
func (g *busGen) read(a uint32) {
	g.c.Ops = append(g.c.Ops, busOp{Op: "read", A: a})
	// every third probe also goes through EaRead24_wrap (in-range addresses only: the method takes bank, offset)
	if a < 0x1000000 && g.r.n(3) == 0 {
		g.c.Ops = append(g.c.Ops, busOp{Op: "read24", A: a})
	}
}
func (g *busGen) write(a uint32) {
	g.c.Ops = append(g.c.Ops, busOp{Op: "write", A: a, V: g.r.n(256)})
}
func (g *busGen) dump(s, e uint32, extra int) {
	n := int(e-s+1) + extra
	if n < 0 {
		n = 0
	}
	g.c.Ops = append(g.c.Ops, busOp{Op: "dump", S: s, E: e, Len: n, Sent: 0xAA})
}

// probes at the edges of every range issued so far, plus unattached neighbours
func (g *busGen) probes(max int) {
	var as []uint32
	for _, r := range g.rngs {
		s, e := r[1], r[2]
		as = append(as, s, s+15, s+16, e-15, e, e+1, e+16)
		if s > 0 {
			as = append(as, s-1)
		}
		as = append(as, s+uint32(g.r.n(int(e-s+1))))
	}
	g.r.shuffle(as)
	if len(as) > max {
		as = as[:max]
	}
	for _, a := range as {
		if g.r.n(3) == 0 {
			g.write(a)
			g.read(a)
		} else {
			g.read(a)
		}
	}
}

func (r *busRng) shuffle(a []uint32) {
	for i := len(a) - 1; i > 0; i-- {
		j := r.n(i + 1)
		a[i], a[j] = a[j], a[i]
	}
}

var busLens = []int{1, 2, 15, 16, 17, 31, 32, 33, 47, 48, 49}

// dumps with every alignment of start/end inside [lo, hi]
func (g *busGen) dumps(lo, hi uint32, k int) {
	for i := 0; i < k; i++ {
		s := lo + uint32(g.r.n(int(hi-lo+1)))
		var n int
		if g.r.n(3) == 0 {
			n = 1 + g.r.n(80)
		} else {
			n = busLens[g.r.n(len(busLens))]
		}
		e := s + uint32(n) - 1
		if e > 0xffffff {
			e = 0xffffff
		}
		if e < s {
			e = s
		}
		extra := g.r.pick(0, 0, 0, 1, 3)
		g.dump(s, e, extra)
	}
}

// bases at which layouts are placed: the bottom, a bank boundary, WRAM, the top of the 24-bit space
var busBases = []uint32{0, 0, 0, 0x00fff0 - 0x30, 0x7e0000, 0x7ffff0 - 0x40, 0xffff80}

// one generated case: a structured history with probes and dumps in between
func busGenCase(r *busRng, idx int, thorough bool) busCase {
	g := &busGen{r: r}
	g.c.Name = fmt.Sprintf("gen-%d", idx)
	base := busBases[r.n(len(busBases))]
	blocks := 8 // layout spans 8 blocks = 128 bytes above base
	span := uint32(blocks * 16)
	if base+span > 1<<24 {
		base = 1<<24 - span
	}
	blk := func(i int) uint32 { return base + uint32(i)*16 }
	nat := 2 + r.n(5)
	if thorough {
		nat = 2 + r.n(10)
	}
	phase := func() {
		g.probes(6 + r.n(6))
		g.dumps(base, base+span-1, 1+r.n(3))
	}
	for i := 0; i < nat; i++ {
		lo := r.n(blocks)
		hi := lo + r.n(blocks-lo)
		s, e := blk(lo), blk(hi)+15
		switch r.n(12) {
		case 0: // misaligned start
			id := g.newMem("rec", 0, 0)
			g.attach(id, s+uint32(1+r.n(15)), e)
		case 1: // misaligned end, or both ends misaligned (incl. the pairs whose offsets cancel: start+end+1 = 0 mod 16)
			id := g.newMem("rec", 0, 0)
			switch r.n(3) {
			case 0:
				g.attach(id, s, e-uint32(1+r.n(15)))
			case 1:
				k := uint32(1 + r.n(15))
				g.attach(id, s+k, e-(16-k)) // (s+k) + (e-(16-k)) + 1 = s + e + 1 - 16 + 2k - ... : nibbles k and 16-k cancel
			default:
				g.attach(id, s+uint32(1+r.n(15)), e-uint32(1+r.n(15)))
			}
		case 2: // re-attach an earlier memory over (part of) what overrode it
			if len(g.rngs) > 0 {
				p := g.rngs[r.n(len(g.rngs))]
				g.attach(int(p[0]), p[1], p[2])
			} else {
				g.attachFresh(s, e)
			}
		case 3: // adjacent to an earlier range
			if len(g.rngs) > 0 {
				p := g.rngs[r.n(len(g.rngs))]
				ns := p[2] + 1
				if ns+15 < base+span {
					g.attachFresh(ns, ns+uint32(r.n(2))*16+15)
				} else {
					g.attachFresh(s, e)
				}
			} else {
				g.attachFresh(s, e)
			}
		case 4: // aligned but end < start: the loop body never runs
			if lo < hi {
				id := g.newMem("rec", 0, 0)
				g.attach(id, blk(hi), blk(lo)+15)
			} else {
				g.attachFresh(s, e)
			}
		case 5: // the same memory over a second range
			if len(g.rngs) > 0 {
				p := g.rngs[r.n(len(g.rngs))]
				g.attach(int(p[0]), s, e)
			} else {
				g.attachFresh(s, e)
			}
		default:
			g.attachFresh(s, e)
		}
		if r.n(3) == 0 {
			phase()
		}
	}
	phase()
	// malformed stream: beyond the table, data too short, an Attach running past the table
	switch r.n(10) {
	case 0:
		g.read(0x1000000 + uint32(r.n(64)))
		g.write(0xffffffff)
	case 1:
		if len(g.rngs) > 0 {
			p := g.rngs[r.n(len(g.rngs))]
			g.dump(p[1]+uint32(r.n(16)), p[2], -1-r.n(3))
		}
	case 2:
		id := g.newMem("rec", 0, 0)
		g.attach(id, 0xffffe0, 0x100000f+uint32(r.n(2))*16)
		g.read(0xffffe0)
		g.read(0xffffff)
		g.read(0xffffdf)
	case 3:
		id := g.newMem("rec", 0, 0)
		g.attach(id, 0x1000000, 0x100000f)
	}
	busRun(&g.c)
	return g.c
}

// systematic boundary cases: fixed small layouts, every start alignment x end classes
func busSystematic(thorough bool) []busCase {
	var out []busCase
	type lay struct {
		name string
		mk   func(g *busGen)
	}
	lays := []lay{
		{"2ram-adjacent", func(g *busGen) {
			g.attach(g.newMem("ram", 0, 16), 0, 15)
			g.attach(g.newMem("ram", 16, 16), 16, 31)
		}},
		{"ram-hole-ram", func(g *busGen) {
			g.attach(g.newMem("ram", 0, 16), 0, 15)
			g.attach(g.newMem("ram", 32, 16), 32, 47)
		}},
		{"rec-rom-rec", func(g *busGen) {
			g.attach(g.newMem("rec", 0, 0), 0, 15)
			g.attach(g.newMem("rom", 16, 16), 16, 31)
			g.attach(g.newMem("rec", 0, 0), 32, 47)
		}},
		{"override-middle", func(g *busGen) {
			g.attach(g.newMem("rec", 0, 0), 0, 63)
			g.attach(g.newMem("rec", 0, 0), 16, 31)
		}},
		{"one-ram-48", func(g *busGen) {
			g.attach(g.newMem("ram", 0, 48), 0, 47)
		}},
		{"hole-first", func(g *busGen) {
			g.attach(g.newMem("rec", 0, 0), 16, 47)
		}},
	}
	step := 3
	if thorough {
		step = 1
	}
	idx := 0
	for li, l := range lays {
		for s := 0; s < 32; s++ {
			r := &busRng{s: uint64(1000*li + s)}
			g := &busGen{r: r}
			g.c.Name = fmt.Sprintf("sys-%s-start%d", l.name, s)
			l.mk(g)
			for e := s; e < 64; e += step {
				g.dump(uint32(s), uint32(e), (s+e)%2)
			}
			// end classes solved for explicitly: same block, block end, next block start, two blocks on
			for _, e := range []int{s | 15, (s | 15) + 1, (s | 15) + 16, (s | 15) + 17} {
				g.dump(uint32(s), uint32(e), 0)
			}
			busRun(&g.c)
			out = append(out, g.c)
			idx++
		}
	}
	return out
}

func busLoadCorpus(dir string) []busCase {
	var out []busCase
	names, _ := filepath.Glob(filepath.Join(dir, "*.json"))
	sort.Strings(names)
	for _, n := range names {
		raw, err := os.ReadFile(n)
		if err != nil {
			continue
		}
		var c busCase
		if json.Unmarshal(raw, &c) != nil {
			fmt.Fprintln(os.Stderr, "bad corpus file", n)
			continue
		}
		c.Name = "corpus-" + strings.TrimSuffix(filepath.Base(n), ".json")
		busRun(&c)
		out = append(out, c)
	}
	return out
}

func busCasesCmd(args []string) int {
	if len(args) < 3 {
		fmt.Fprintln(os.Stderr, "usage: buscases <seed> <tier> <corpusdir>")
		return 2
	}
	var seed uint64
	fmt.Sscan(args[0], &seed)
	thorough := args[1] == "thorough"
	enc := json.NewEncoder(os.Stdout)
	for _, c := range busLoadCorpus(args[2]) {
		enc.Encode(c)
	}
	for _, c := range busSystematic(thorough) {
		enc.Encode(c)
	}
	n := 2000
	if thorough {
		n = 12000
	}
	r := &busRng{s: seed*0x1000193 + 13}
	for i := 0; i < n; i++ {
		enc.Encode(busGenCase(r, i, thorough))
	}
	return 0
}

// ---------------------------------------------------------------- falsifier
// A scenario: memories (pure recorders or RAMs that exactly fit their range), a history of Attach calls,
// then one probe.  The expectation is computed from the property's own words: owner(a) = the memory of the
// last Attach that returned nil and whose [start, end] contains a.
type busScen struct {
	Mems  []busMem    `json:"mems"`
	Hist  [][3]uint32 `json:"hist"` // (mem, start, end)
	Probe busOp       `json:"probe"`
}

type busFail struct {
	clause, key, detail string
	sc                  busScen
}

type busFalsifier struct {
	fails  map[string]*busFail // first failure per key
	counts map[string]int
	evals  map[string]int
}

func (f *busFalsifier) fail(clause, key string, sc busScen, detail string) {
	f.counts[key]++
	if _, ok := f.fails[key]; !ok {
		f.fails[key] = &busFail{clause, key, detail, sc}
	}
}

func busEvStr(es []busEv) string {
	var sb strings.Builder
	for i, e := range es {
		if i > 0 {
			sb.WriteString(" ")
		}
		if i >= 24 {
			sb.WriteString("...")
			break
		}
		if e.Kind == 0 {
			fmt.Fprintf(&sb, "m%d.Read(%#x)", e.ID, e.A)
		} else {
			fmt.Fprintf(&sb, "m%d.Write(%#x,%#x)", e.ID, e.A, e.V)
		}
	}
	return sb.String()
}

// run the history; check the Attach clauses on the way; returns the world and the owner function
func (f *busFalsifier) history(sc busScen) (*busWorld, func(uint32) int) {
	w := busNewWorld(sc.Mems)
	var ok [][3]uint32
	owner := func(a uint32) int {
		for i := len(ok) - 1; i >= 0; i-- {
			if ok[i][1] <= a && a <= ok[i][2] {
				return int(ok[i][0])
			}
		}
		return 0
	}
	// addresses at which routing is sampled before/after each call
	sample := func() []int {
		var as []uint32
		for _, h := range sc.Hist {
			as = append(as, h[1]-1, h[1], h[1]+15, h[1]+16, h[2]-15, h[2], h[2]+1, h[2]+16, (h[1]+h[2])/2)
		}
		res := make([]int, len(as))
		for i, a := range as {
			res[i] = busWho(w, a&0xffffff)
		}
		return res
	}
	for hi, h := range sc.Hist {
		part := busScen{Mems: sc.Mems, Hist: sc.Hist[:hi+1], Probe: busOp{Op: "attach"}}
		before := sample()
		obs := w.attach(int(h[0]), h[1], h[2])
		after := sample()
		aligned := h[1]&0xf == 0 && (h[2]+1)&0xf == 0
		f.evals["Attach"]++
		switch {
		case !aligned && obs != 1:
			f.fail("C13.Attach", "Attach.misaligned-accepted", part, fmt.Sprintf("Attach(m%d,%#x,%#x) is not 16-byte aligned but returned outcome %d (0 nil, 2 panic)", h[0], h[1], h[2], obs))
		case !aligned && fmt.Sprint(before) != fmt.Sprint(after):
			f.fail("C13.Attach", "Attach.misaligned-changed-routing", part, fmt.Sprintf("rejected Attach(m%d,%#x,%#x) changed routing: %v -> %v", h[0], h[1], h[2], before, after))
		case aligned && h[2] < 1<<24 && obs != 0:
			f.fail("C13.Attach", "Attach.aligned-rejected", part, fmt.Sprintf("aligned Attach(m%d,%#x,%#x) returned outcome %d", h[0], h[1], h[2], obs))
		}
		if aligned && obs == 0 && h[1] <= h[2] {
			ok = append(ok, h)
		}
	}
	return w, owner
}

// which memory serves address a (0 = none / panic), observed through EaRead; the log is restored
func busWho(w *busWorld, a uint32) int {
	n := len(w.log)
	obs := w.read(a)
	who := 0
	if obs >= 0 && len(w.log) == n+1 {
		who = w.log[n].ID
	}
	w.log = w.log[:n]
	return who
}

func (f *busFalsifier) check(sc busScen) {
	f.checkAll(sc.Mems, sc.Hist, []busOp{sc.Probe})
}

// one history, many probes (probes do not change routing)
func (f *busFalsifier) checkAll(mems []busMem, hist [][3]uint32, probes []busOp) {
	w, owner := f.history(busScen{Mems: mems, Hist: hist})
	defer w.release()
	for _, p := range probes {
		f.probe(w, owner, busScen{mems, hist, p})
	}
}

func (f *busFalsifier) probe(w *busWorld, owner func(uint32) int, sc busScen) {
	p := sc.Probe
	switch p.Op {
	case "read", "write":
		f.evals["Route"]++
		own := owner(p.A)
		n := len(w.log)
		var obs int
		if p.Op == "read" {
			obs = w.read(p.A)
		} else {
			obs = w.write(p.A, byte(p.V))
		}
		got := w.log[n:]
		if own == 0 {
			if obs != -1 || len(got) != 0 {
				f.fail("C13.Route", "Route.unattached-"+p.Op, sc, fmt.Sprintf("%s at unattached %#x did not fail loudly: outcome %d, memories saw [%s]", p.Op, p.A, obs, busEvStr(got)))
			}
			return
		}
		want := busEv{own, 0, p.A, 0}
		if p.Op == "write" {
			want = busEv{own, 1, p.A, byte(p.V)}
		}
		if len(got) != 1 || got[0] != want {
			f.fail("C13.Route", "Route."+p.Op, sc, fmt.Sprintf("%s at %#x must reach m%d with the unmodified address; memories saw [%s]", p.Op, p.A, own, busEvStr(got)))
		} else if p.Op == "read" && obs != int(w.mems[own].peekByte(w, p.A)) {
			f.fail("C13.Route", "Route.read-value", sc, fmt.Sprintf("EaRead(%#x) = %d, m%d.Read gives %d", p.A, obs, own, w.mems[own].peekByte(w, p.A)))
		}
	case "read24":
		// the 24-bit read (offset wraps inside the bank) is three single reads: it fails loudly as soon as one of the
		// three addresses was never attached, otherwise every byte comes from the memory attached last, unmodified address
		f.evals["Route"]++
		as := [3]uint32{p.A, p.A&0xff0000 | (p.A+1)&0xffff, p.A&0xff0000 | (p.A+2)&0xffff}
		hole := false
		var wantLog []busEv
		var want int64
		for k, a := range as {
			own := owner(a)
			if own == 0 {
				hole = true
				break
			}
			wantLog = append(wantLog, busEv{own, 0, a, 0})
			want |= int64(w.mems[own].peekByte(w, a)) << (8 * uint(k))
		}
		n := len(w.log)
		obs := w.read24(p.A)
		got := w.log[n:]
		switch {
		case hole && obs != -1:
			f.fail("C13.Route", "Route.unattached-read24", sc, fmt.Sprintf("EaRead24_wrap at %#x touches an unattached address but did not fail loudly: returned %#x, memories saw [%s]", p.A, obs, busEvStr(got)))
		case !hole && obs == -1:
			f.fail("C13.Route", "Route.read24", sc, fmt.Sprintf("EaRead24_wrap at %#x panicked although its three addresses are attached", p.A))
		case !hole && (obs != want || fmt.Sprint(got) != fmt.Sprint(wantLog)):
			f.fail("C13.Route", "Route.read24", sc, fmt.Sprintf("EaRead24_wrap at %#x = %#x, three single reads give %#x; memories saw [%s], want [%s]", p.A, obs, want, busEvStr(got), busEvStr(wantLog)))
		}
	case "dump":
		f.evals["EaDump"]++
		// byte-wise reads first (the specification), on the same bus
		cnt := int(p.E - p.S + 1)
		want := make([]int, p.Len)
		for i := range want {
			want[i] = p.Sent
		}
		var wantLog []busEv
		readable := true
		for i := 0; i < cnt; i++ {
			a := p.S + uint32(i)
			if own := owner(a); own != 0 {
				n := len(w.log)
				v := w.read(a)
				w.log = w.log[:n]
				if v < 0 {
					readable = false
					break
				}
				want[i] = v
				wantLog = append(wantLog, busEv{own, 0, a, 0})
			}
		}
		if !readable {
			return // outside the property: a single read of an attached address fails
		}
		data := make([]byte, p.Len)
		for i := range data {
			data[i] = byte(p.Sent)
		}
		n0 := len(w.log)
		n := w.dump(p.S, p.E, data)
		got := w.log[n0:]
		key := "EaDump.aligned-start"
		if p.S&0xf != 0 {
			key = "EaDump.unaligned-start"
		}
		gotData := make([]int, len(data))
		for i, v := range data {
			gotData[i] = int(v)
		}
		switch {
		case n == -1:
			f.fail("C13.EaDump", key, sc, fmt.Sprintf("EaDump(%#x,%#x) panicked although every single EaRead in the range succeeds; memories saw [%s]", p.S, p.E, busEvStr(got)))
		case n != cnt:
			f.fail("C13.EaDump", key, sc, fmt.Sprintf("EaDump(%#x,%#x) returned %d, want %d", p.S, p.E, n, cnt))
		case fmt.Sprint(gotData) != fmt.Sprint(want):
			f.fail("C13.EaDump", key, sc, fmt.Sprintf("EaDump(%#x,%#x) data %v, byte-wise reads give %v; memories saw [%s]", p.S, p.E, gotData, want, busEvStr(got)))
		case fmt.Sprint(got) != fmt.Sprint(wantLog):
			f.fail("C13.EaDump", key, sc, fmt.Sprintf("EaDump(%#x,%#x): memories saw [%s], want [%s]", p.S, p.E, busEvStr(got), busEvStr(wantLog)))
		}
	}
}

// the byte memory id holds for address a, without logging
func (m *busRec) peekByte(w *busWorld, a uint32) (v byte) {
	defer func() { recover() }()
	if m.inner == nil {
		return busRecVal(m.id, a)
	}
	return m.inner.Read(a)
}

func busFalsifierNew() *busFalsifier {
	return &busFalsifier{fails: map[string]*busFail{}, counts: map[string]int{}, evals: map[string]int{}}
}

// memories fitting the history: one per id, RAM exactly covering the hull of its ranges, or a recorder
func busScenMems(hist [][3]uint32, ram func(id int) bool) []busMem {
	lo := map[int]uint32{}
	hi := map[int]uint32{}
	var ids []int
	for _, h := range hist {
		id := int(h[0])
		if _, ok := lo[id]; !ok {
			lo[id], hi[id] = h[1], h[2]
			ids = append(ids, id)
			continue
		}
		if h[1] < lo[id] {
			lo[id] = h[1]
		}
		if h[2] > hi[id] {
			hi[id] = h[2]
		}
	}
	var ms []busMem
	for _, id := range ids {
		if ram(id) && hi[id] >= lo[id] && hi[id]-lo[id] < 4096 {
			d := make([]int, hi[id]-lo[id]+1)
			for i := range d {
				d[i] = (id*50 + i) & 0xff
			}
			ms = append(ms, busMem{ID: id, Kind: "ram", Off: lo[id], Data: d})
		} else {
			ms = append(ms, busMem{ID: id, Kind: "rec"})
		}
	}
	return ms
}

func busCheckCmd(args []string) int {
	var seed uint64 = 1
	thorough := false
	if len(args) > 0 {
		fmt.Sscan(args[0], &seed)
	}
	if len(args) > 1 {
		thorough = args[1] == "thorough"
	}
	f := busFalsifierNew()
	// 1. small systematic search (smallest scenarios first, so the first failure is a minimal one)
	hists := [][][3]uint32{
		{{1, 0, 15}, {2, 16, 31}},
		{{1, 0, 15}, {2, 32, 47}},
		{{1, 0, 47}, {2, 16, 31}},
		{{1, 0, 31}, {2, 16, 47}, {1, 16, 31}},
		{{1, 16, 47}},
		{{1, 0, 31}, {2, 8, 31}, {3, 0, 23}, {4, 32, 47}},
	}
	for _, ramKind := range []bool{true, false} {
		for _, h := range hists {
			mems := busScenMems(h, func(int) bool { return ramKind })
			var ps []busOp
			for s := uint32(0); s < 48; s++ {
				for e := s; e < 64; e++ {
					ps = append(ps, busOp{Op: "dump", S: s, E: e, Len: int(e-s+1) + 2, Sent: 0xAA})
				}
				ps = append(ps, busOp{Op: "read", A: s}, busOp{Op: "write", A: s, V: int(s*7+1) & 0xff}, busOp{Op: "read24", A: s})
			}
			f.checkAll(mems, h, ps)
		}
	}
	// 2. random histories
	r := &busRng{s: seed*0x51ed27 + 0xC13}
	n := 4000
	if thorough {
		n = 60000
	}
	for it := 0; it < n; it++ {
		base := busBases[r.n(len(busBases))]
		if base+256 > 1<<24 {
			base = 1<<24 - 256
		}
		var h [][3]uint32
		for k, nh := 0, 1+r.n(6); k < nh; k++ {
			lo := r.n(16)
			hiB := lo + r.n(16-lo)
			s, e := base+uint32(lo)*16, base+uint32(hiB)*16+15
			id := uint32(1 + r.n(4))
			switch r.n(10) {
			case 0:
				s += uint32(1 + r.n(15))
			case 1:
				e -= uint32(1 + r.n(15))
			case 2: // both ends misaligned; half of the time with offsets that cancel (start + end + 1 = 0 mod 16)
				k := uint32(1 + r.n(15))
				s += k
				if r.n(2) == 0 && hiB > lo {
					e -= 16 - k
				} else {
					e -= uint32(1 + r.n(15))
				}
			}
			h = append(h, [3]uint32{id, s, e})
		}
		ramSel := r.next()
		mems := busScenMems(h, func(id int) bool { return ramSel>>uint(id)&1 == 1 })
		// the RAM hull must only be used where every attached range of that id lies inside it: it does
		var ps []busOp
		for k := 0; k < 8; k++ {
			a := base + uint32(r.n(272))
			if a > 0xffffff {
				a = 0xffffff
			}
			switch r.n(5) {
			case 0:
				ps = append(ps, busOp{Op: "read", A: a})
			case 1:
				ps = append(ps, busOp{Op: "write", A: a, V: r.n(256)})
			case 4:
				ps = append(ps, busOp{Op: "read24", A: a})
			default:
				e := a + uint32(r.n(70))
				if e > 0xffffff {
					e = 0xffffff
				}
				ps = append(ps, busOp{Op: "dump", S: a, E: e, Len: int(e-a+1) + r.n(3), Sent: 0x55 + r.n(2)*0x55})
			}
		}
		f.checkAll(mems, h, ps)
	}
	var keys []string
	for k := range f.fails {
		keys = append(keys, k)
	}
	sort.Strings(keys)
	for _, k := range keys {
		fl := f.fails[k]
		js, _ := json.Marshal(fl.sc)
		fmt.Printf("FAIL %s key=%s count=%d input=%s detail=%s\n", fl.clause, fl.key, f.counts[k], js, fl.detail)
	}
	for _, c := range []string{"Attach", "Route", "EaDump"} {
		fmt.Printf("EVAL %s %d\n", c, f.evals[c])
	}
	if len(keys) > 0 {
		return 1
	}
	return 0
}

func busReplayCmd(args []string) int {
	if len(args) < 1 {
		return 2
	}
	var sc busScen
	if err := json.Unmarshal([]byte(args[0]), &sc); err != nil {
		fmt.Fprintln(os.Stderr, err)
		return 2
	}
	f := busFalsifierNew()
	f.check(sc)
	for k, fl := range f.fails {
		fmt.Printf("FAIL %s key=%s detail=%s\n", fl.clause, k, fl.detail)
	}
	if len(f.fails) > 0 {
		return 1
	}
	fmt.Println("OK scenario satisfies C13 on this tree")
	return 0
}

// buscase <json>: run one case (inputs as in corpus/C13/*.json) and print it with its observations
func busCaseCmd(args []string) int {
	if len(args) < 1 {
		return 2
	}
	var c busCase
	if err := json.Unmarshal([]byte(args[0]), &c); err != nil {
		fmt.Fprintln(os.Stderr, err)
		return 2
	}
	busRun(&c)
	json.NewEncoder(os.Stdout).Encode(c)
	return 0
}

func init() {
	commands["buscase"] = busCaseCmd
	commands["buscases"] = busCasesCmd
	commands["buscheck"] = busCheckCmd
	commands["busreplay"] = busReplayCmd
}
