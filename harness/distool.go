package main

// C14 harness: tracing is truthful and does not perturb execution.
//
//   discases  real trace lines of both disassemblers on structured cases (every opcode x M/X widths x
//             operand bytes incl. the rel8 offsets $00 $7F $80 $FC $FF, rel16, PC near $FFFF, E=1,
//             flag values outside {0,1}, stale register copies, myPC != PC, corpus first), parsed into the
//             projection compared by the Coq model (tie), plus the Go falsifier of truthfulness: every line
//             is checked directly against an independent opcode matrix (transcribed from Spec/ISA.v, not
//             from the Go tables) and the memory / registers the harness set up.
//   disrun    the non-perturbation falsifier: the same program and start state through the real
//             System.RunUntil with and without a Logger; all CPU fields, AllCycles, WRAM/SRAM/ROM/hwio
//             contents (system map) or the ordered sequence of memory writes (instrumented flat memory).
//   disreplay one case given on the command line in the corpus format.

import (
	"bufio"
	"bytes"
	"flag"
	"fmt"
	"os"
	"path/filepath"
	"reflect"
	"sort"
	"strconv"
	"strings"

	"github.com/alttpo/snes/emulator"
	"github.com/alttpo/snes/emulator/cpu65c816"
	"github.com/alttpo/snes/emulator/cpualt"
)

// ---------------------------------------------------------------- independent opcode matrix (from Spec/ISA.v)

var disISA = [256]string{
	"BRK Imm8", "ORA DpIndX", "COP Imm8", "ORA Sr", "TSB Dp", "ORA Dp", "ASL Dp", "ORA DpIndL",
	"PHP Imp", "ORA ImmM", "ASL Acc", "PHD Imp", "TSB Abs", "ORA Abs", "ASL Abs", "ORA Long",
	"BPL Rel8", "ORA DpIndY", "ORA DpInd", "ORA SrIndY", "TRB Dp", "ORA DpX", "ASL DpX", "ORA DpIndLY",
	"CLC Imp", "ORA AbsY", "INC Acc", "TCS Imp", "TRB Abs", "ORA AbsX", "ASL AbsX", "ORA LongX",
	"JSR Abs", "AND DpIndX", "JSL Long", "AND Sr", "BIT Dp", "AND Dp", "ROL Dp", "AND DpIndL",
	"PLP Imp", "AND ImmM", "ROL Acc", "PLD Imp", "BIT Abs", "AND Abs", "ROL Abs", "AND Long",
	"BMI Rel8", "AND DpIndY", "AND DpInd", "AND SrIndY", "BIT DpX", "AND DpX", "ROL DpX", "AND DpIndLY",
	"SEC Imp", "AND AbsY", "DEC Acc", "TSC Imp", "BIT AbsX", "AND AbsX", "ROL AbsX", "AND LongX",
	"RTI Imp", "EOR DpIndX", "WDM Imm8", "EOR Sr", "MVP BlockMove", "EOR Dp", "LSR Dp", "EOR DpIndL",
	"PHA Imp", "EOR ImmM", "LSR Acc", "PHK Imp", "JMP Abs", "EOR Abs", "LSR Abs", "EOR Long",
	"BVC Rel8", "EOR DpIndY", "EOR DpInd", "EOR SrIndY", "MVN BlockMove", "EOR DpX", "LSR DpX", "EOR DpIndLY",
	"CLI Imp", "EOR AbsY", "PHY Imp", "TCD Imp", "JML Long", "EOR AbsX", "LSR AbsX", "EOR LongX",
	"RTS Imp", "ADC DpIndX", "PER Rel16", "ADC Sr", "STZ Dp", "ADC Dp", "ROR Dp", "ADC DpIndL",
	"PLA Imp", "ADC ImmM", "ROR Acc", "RTL Imp", "JMP AbsInd", "ADC Abs", "ROR Abs", "ADC Long",
	"BVS Rel8", "ADC DpIndY", "ADC DpInd", "ADC SrIndY", "STZ DpX", "ADC DpX", "ROR DpX", "ADC DpIndLY",
	"SEI Imp", "ADC AbsY", "PLY Imp", "TDC Imp", "JMP AbsIndX", "ADC AbsX", "ROR AbsX", "ADC LongX",
	"BRA Rel8", "STA DpIndX", "BRL Rel16", "STA Sr", "STY Dp", "STA Dp", "STX Dp", "STA DpIndL",
	"DEY Imp", "BIT ImmM", "TXA Imp", "PHB Imp", "STY Abs", "STA Abs", "STX Abs", "STA Long",
	"BCC Rel8", "STA DpIndY", "STA DpInd", "STA SrIndY", "STY DpX", "STA DpX", "STX DpY", "STA DpIndLY",
	"TYA Imp", "STA AbsY", "TXS Imp", "TXY Imp", "STZ Abs", "STA AbsX", "STZ AbsX", "STA LongX",
	"LDY ImmX", "LDA DpIndX", "LDX ImmX", "LDA Sr", "LDY Dp", "LDA Dp", "LDX Dp", "LDA DpIndL",
	"TAY Imp", "LDA ImmM", "TAX Imp", "PLB Imp", "LDY Abs", "LDA Abs", "LDX Abs", "LDA Long",
	"BCS Rel8", "LDA DpIndY", "LDA DpInd", "LDA SrIndY", "LDY DpX", "LDA DpX", "LDX DpY", "LDA DpIndLY",
	"CLV Imp", "LDA AbsY", "TSX Imp", "TYX Imp", "LDY AbsX", "LDA AbsX", "LDX AbsY", "LDA LongX",
	"CPY ImmX", "CMP DpIndX", "REP Imm8", "CMP Sr", "CPY Dp", "CMP Dp", "DEC Dp", "CMP DpIndL",
	"INY Imp", "CMP ImmM", "DEX Imp", "WAI Imp", "CPY Abs", "CMP Abs", "DEC Abs", "CMP Long",
	"BNE Rel8", "CMP DpIndY", "CMP DpInd", "CMP SrIndY", "PEI DpInd", "CMP DpX", "DEC DpX", "CMP DpIndLY",
	"CLD Imp", "CMP AbsY", "PHX Imp", "STP Imp", "JML AbsIndL", "CMP AbsX", "DEC AbsX", "CMP LongX",
	"CPX ImmX", "SBC DpIndX", "SEP Imm8", "SBC Sr", "CPX Dp", "SBC Dp", "INC Dp", "SBC DpIndL",
	"INX Imp", "SBC ImmM", "NOP Imp", "XBA Imp", "CPX Abs", "SBC Abs", "INC Abs", "SBC Long",
	"BEQ Rel8", "SBC DpIndY", "SBC DpInd", "SBC SrIndY", "PEA Imm16", "SBC DpX", "INC DpX", "SBC DpIndLY",
	"SED Imp", "SBC AbsY", "PLX Imp", "XCE Imp", "JSR AbsIndX", "SBC AbsX", "INC AbsX", "SBC LongX",
}

func disMnMode(op int) (string, string) {
	p := strings.Split(disISA[op], " ")
	return p[0], p[1]
}

// instruction length, opcode included (WDC table 5-7)
func disLen(mode string, m8, x8 bool) int {
	switch mode {
	case "Imp", "Acc":
		return 1
	case "ImmM":
		if m8 {
			return 2
		}
		return 3
	case "ImmX":
		if x8 {
			return 2
		}
		return 3
	case "Imm8", "Rel8", "Dp", "DpX", "DpY", "DpInd", "DpIndX", "DpIndY", "DpIndL", "DpIndLY", "Sr", "SrIndY":
		return 2
	case "Imm16", "Rel16", "BlockMove", "Abs", "AbsX", "AbsY", "AbsInd", "AbsIndX", "AbsIndL":
		return 3
	case "Long", "LongX":
		return 4
	}
	panic("mode " + mode)
}

// shape codes = Model/Disasm.v shape_code
var disShapeOfMode = map[string]int{
	"Imp": 0, "Acc": 1, "ImmM": 2, "ImmX": 2, "Imm8": 2, "Imm16": 2, "Dp": 3, "DpX": 4, "DpY": 5, "DpInd": 6,
	"DpIndX": 7, "DpIndY": 8, "DpIndL": 9, "DpIndLY": 10, "Sr": 11, "SrIndY": 12, "Abs": 13, "AbsX": 14, "AbsY": 15,
	"Long": 16, "LongX": 17, "AbsInd": 18, "AbsIndX": 19, "AbsIndL": 20, "Rel8": 21, "Rel16": 13, "BlockMove": 22,
}

// ---------------------------------------------------------------- state, cases

type disState struct {
	RK               byte
	PC               uint16
	M, X, E          byte
	RA, RX, RY       uint16
	RAl, RAh         byte
	RXl, RYl         byte
	N, V, D, I, Z, C byte
	Cycles           byte
}

type disCase struct {
	id   int
	tag  string
	st   disState
	mypc uint16
	mem  [4]byte // bytes at RK:(mypc+i) wrapping inside the bank
}

var disRegNames = []string{"RK", "PC", "M", "X", "RA", "RAl", "RX", "RXl", "RY", "RYl", "N", "V", "D", "I", "Z", "C"}

func (s *disState) regVals() []uint64 {
	return []uint64{uint64(s.RK), uint64(s.PC), uint64(s.M), uint64(s.X), uint64(s.RA), uint64(s.RAl), uint64(s.RX), uint64(s.RXl),
		uint64(s.RY), uint64(s.RYl), uint64(s.N), uint64(s.V), uint64(s.D), uint64(s.I), uint64(s.Z), uint64(s.C)}
}

func (c *disCase) addr(i int) uint32 { return uint32(c.st.RK)<<16 | uint32(c.mypc+uint16(i)) }

// corpus / replay format:  tag key=value ... ; keys: RK PC M X E RA RAl RAh RX RXl RY RYl N V D I Z C Cycles mypc b0 b1 b2 b3
func (c *disCase) text() string {
	s := &c.st
	return fmt.Sprintf("%s RK=%d PC=%d M=%d X=%d E=%d RA=%d RAl=%d RAh=%d RX=%d RXl=%d RY=%d RYl=%d N=%d V=%d D=%d I=%d Z=%d C=%d Cycles=%d mypc=%d b0=%d b1=%d b2=%d b3=%d",
		c.tag, s.RK, s.PC, s.M, s.X, s.E, s.RA, s.RAl, s.RAh, s.RX, s.RXl, s.RY, s.RYl, s.N, s.V, s.D, s.I, s.Z, s.C, s.Cycles, c.mypc,
		c.mem[0], c.mem[1], c.mem[2], c.mem[3])
}

func disParseCase(line string) (disCase, error) {
	var c disCase
	f := strings.Fields(line)
	if len(f) == 0 {
		return c, fmt.Errorf("empty")
	}
	c.tag = f[0]
	for _, kv := range f[1:] {
		p := strings.SplitN(kv, "=", 2)
		if len(p) != 2 {
			return c, fmt.Errorf("bad token %q", kv)
		}
		v, err := strconv.ParseUint(p[1], 0, 64)
		if err != nil {
			return c, err
		}
		s := &c.st
		switch p[0] {
		case "RK":
			s.RK = byte(v)
		case "PC":
			s.PC = uint16(v)
		case "M":
			s.M = byte(v)
		case "X":
			s.X = byte(v)
		case "E":
			s.E = byte(v)
		case "RA":
			s.RA = uint16(v)
		case "RAl":
			s.RAl = byte(v)
		case "RAh":
			s.RAh = byte(v)
		case "RX":
			s.RX = uint16(v)
		case "RXl":
			s.RXl = byte(v)
		case "RY":
			s.RY = uint16(v)
		case "RYl":
			s.RYl = byte(v)
		case "N":
			s.N = byte(v)
		case "V":
			s.V = byte(v)
		case "D":
			s.D = byte(v)
		case "I":
			s.I = byte(v)
		case "Z":
			s.Z = byte(v)
		case "C":
			s.C = byte(v)
		case "Cycles":
			s.Cycles = byte(v)
		case "mypc":
			c.mypc = uint16(v)
		case "b0":
			c.mem[0] = byte(v)
		case "b1":
			c.mem[1] = byte(v)
		case "b2":
			c.mem[2] = byte(v)
		case "b3":
			c.mem[3] = byte(v)
		default:
			return c, fmt.Errorf("unknown key %q", p[0])
		}
	}
	return c, nil
}

// ---------------------------------------------------------------- observed projection

type disShown struct {
	wide bool
	v    uint16
}

type disObs struct {
	pbr     byte
	pc      uint16
	bytes   []byte
	name    string
	shape   int
	groups  [][]byte
	back    bool
	hasregs bool
	a, x, y disShown
	flags   [8]bool
	pure    bool // every integer / bool CPU field unchanged by the call
	raw     string
}

func hexv(s string) (uint64, bool) {
	if s == "" {
		return 0, false
	}
	for _, ch := range s {
		if !(ch >= '0' && ch <= '9' || ch >= 'a' && ch <= 'f') {
			return 0, false
		}
	}
	v, err := strconv.ParseUint(s, 16, 64)
	return v, err == nil
}

func isHex(ch byte) bool { return ch >= '0' && ch <= '9' || ch >= 'a' && ch <= 'f' }

// operand text -> (shape, groups, back)
func disParseOperand(t string) (int, [][]byte, bool, error) {
	var sk strings.Builder
	var groups [][]byte
	for i := 0; i < len(t); {
		ch := t[i]
		switch {
		case ch == ' ' || ch == '$':
			i++
		case isHex(ch):
			j := i
			for j < len(t) && isHex(t[j]) {
				j++
			}
			if (j-i)%2 != 0 {
				return -1, nil, false, fmt.Errorf("odd hex run in %q", t)
			}
			var g []byte
			for k := i; k < j; k += 2 {
				v, _ := strconv.ParseUint(t[k:k+2], 16, 8)
				g = append(g, byte(v))
			}
			groups = append(groups, g)
			sk.WriteByte('h')
			i = j
		case ch == 'S' && i+1 < len(t) && t[i+1] == 'n':
			sk.WriteByte('S')
			i += 2
		default:
			sk.WriteByte(ch)
			i++
		}
	}
	gl := func(k int) int {
		if k < len(groups) {
			return len(groups[k])
		}
		return 0
	}
	by := func(one, two, three int) (int, error) {
		switch gl(0) {
		case 1:
			if one >= 0 {
				return one, nil
			}
		case 2:
			if two >= 0 {
				return two, nil
			}
		case 3:
			if three >= 0 {
				return three, nil
			}
		}
		return -1, fmt.Errorf("group width %d not valid in %q", gl(0), t)
	}
	var shape int
	var err error
	back := false
	switch sk.String() {
	case "":
		shape = 0
	case "A":
		shape = 1
	case "#h":
		shape, err = by(2, 2, -1)
	case "h":
		shape, err = by(3, 13, 16)
	case "h,X":
		shape, err = by(4, 14, 17)
	case "h,Y":
		shape, err = by(5, 15, -1)
	case "(h)":
		shape, err = by(6, 18, -1)
	case "(h,X)":
		shape, err = by(7, 19, -1)
	case "(h),Y":
		shape, err = by(8, -1, -1)
	case "[h]":
		shape, err = by(9, 20, -1)
	case "[h],Y":
		shape, err = by(10, -1, -1)
	case "h,S":
		shape, err = by(11, -1, -1)
	case "(h,S),Y":
		shape, err = by(12, -1, -1)
	case "h(h+)", "h(h-)":
		shape = 21
		back = strings.HasSuffix(sk.String(), "-)")
		if gl(0) != 1 || gl(1) != 2 {
			err = fmt.Errorf("rel8 group widths in %q", t)
		}
	case "#h,#h":
		shape = 22
		if gl(0) != 1 || gl(1) != 1 {
			err = fmt.Errorf("block move group widths in %q", t)
		}
	case "!unknown!":
		shape = 23
	default:
		err = fmt.Errorf("unrecognised operand text %q (skeleton %q)", t, sk.String())
	}
	return shape, groups, back, err
}

func disParseRegs(t string, flagLetters string, o *disObs) error {
	f := strings.Fields(t)
	get := func(prefix string) (disShown, error) {
		for _, w := range f {
			if strings.HasPrefix(w, prefix) {
				v := w[len(prefix):]
				if len(v) != 4 {
					return disShown{}, fmt.Errorf("register %q", w)
				}
				if strings.HasPrefix(v, "--") {
					x, ok := hexv(v[2:])
					if !ok {
						return disShown{}, fmt.Errorf("register %q", w)
					}
					return disShown{false, uint16(x)}, nil
				}
				x, ok := hexv(v)
				if !ok {
					return disShown{}, fmt.Errorf("register %q", w)
				}
				return disShown{true, uint16(x)}, nil
			}
		}
		return disShown{}, fmt.Errorf("no %s in %q", prefix, t)
	}
	var err error
	if o.a, err = get("A="); err != nil {
		return err
	}
	if o.x, err = get("X="); err != nil {
		return err
	}
	if o.y, err = get("Y="); err != nil {
		return err
	}
	fl := f[len(f)-1]
	if len(fl) != 8 {
		return fmt.Errorf("flags %q", fl)
	}
	for i := 0; i < 8; i++ {
		switch fl[i] {
		case '-':
			o.flags[i] = false
		case flagLetters[i]:
			o.flags[i] = true
		default:
			return fmt.Errorf("flag letter %q at %d", fl[i], i)
		}
	}
	o.hasregs = true
	return nil
}

// kind 0/3: "<cyc>\tKK:PPPP|bytes|nam operand|<regs> FLAGS\n"; kind 1: "ea=.., addr=.. | regs S=.. flags | KK:PPPP|bytes|nam operand";
// kind 2: "<cyc>\tKK:PPPP|bytes|nam operand|"   (cpualt uses U+2502 as the separator)
func disParseLine(kind int, text string) (*disObs, error) {
	o := &disObs{raw: text}
	t := strings.ReplaceAll(strings.TrimRight(text, "\n"), "│", "|")
	p := strings.Split(t, "|")
	var loc, byt, ins, regs string
	switch kind {
	case 0, 3:
		if len(p) != 4 {
			return o, fmt.Errorf("%d fields", len(p))
		}
		tab := strings.IndexByte(p[0], '\t')
		if tab < 0 {
			return o, fmt.Errorf("no tab")
		}
		loc, byt, ins, regs = p[0][tab+1:], p[1], p[2], p[3]
		if err := disParseRegs(regs, "NVMXDIZC", o); err != nil {
			return o, err
		}
	case 1:
		if len(p) != 5 {
			return o, fmt.Errorf("%d fields", len(p))
		}
		loc, byt, ins, regs = strings.TrimSpace(p[2]), p[3], p[4], p[1]
		if err := disParseRegs(regs, "nvmxdizc", o); err != nil {
			return o, err
		}
	case 2:
		if len(p) != 4 || p[3] != "" {
			return o, fmt.Errorf("%d fields", len(p))
		}
		tab := strings.IndexByte(p[0], '\t')
		if tab < 0 {
			return o, fmt.Errorf("no tab")
		}
		loc, byt, ins = p[0][tab+1:], p[1], p[2]
	}
	if len(loc) != 7 || loc[2] != ':' {
		return o, fmt.Errorf("location %q", loc)
	}
	k, ok1 := hexv(loc[:2])
	pc, ok2 := hexv(loc[3:])
	if !ok1 || !ok2 {
		return o, fmt.Errorf("location %q", loc)
	}
	o.pbr, o.pc = byte(k), uint16(pc)
	for _, w := range strings.Fields(byt) {
		v, ok := hexv(w)
		if !ok || len(w) != 2 {
			// "???" / "err: cmd len N": no bytes shown
			o.bytes = nil
			break
		}
		o.bytes = append(o.bytes, byte(v))
	}
	// mnemonic: up to the first space (printed with width 3), operand: the rest
	sp := strings.IndexByte(ins, ' ')
	if sp < 0 {
		return o, fmt.Errorf("instruction column %q", ins)
	}
	o.name = ins[:sp]
	var err error
	o.shape, o.groups, o.back, err = disParseOperand(strings.TrimSpace(ins[sp:]))
	return o, err
}

func (o *disObs) text() string {
	b := "-"
	if len(o.bytes) > 0 {
		var p []string
		for _, x := range o.bytes {
			p = append(p, strconv.Itoa(int(x)))
		}
		b = strings.Join(p, ",")
	}
	g := "-"
	if len(o.groups) > 0 {
		var gs []string
		for _, grp := range o.groups {
			var p []string
			for _, x := range grp {
				p = append(p, strconv.Itoa(int(x)))
			}
			gs = append(gs, strings.Join(p, "."))
		}
		g = strings.Join(gs, ";")
	}
	bi := func(v bool) int {
		if v {
			return 1
		}
		return 0
	}
	fl := ""
	for _, f := range o.flags {
		fl += strconv.Itoa(bi(f))
	}
	name := o.name
	if name == "" {
		name = "-"
	}
	return fmt.Sprintf("%d %d %s %s %d %s %d %d %d %d %d %d %d %d %s %d", o.pbr, o.pc, b, name, o.shape, g, bi(o.back), bi(o.hasregs),
		bi(o.a.wide), o.a.v, bi(o.x.wide), o.x.v, bi(o.y.wide), o.y.v, fl, bi(o.pure))
}

// ---------------------------------------------------------------- running the real disassemblers

type disMem struct {
	m      map[uint32]byte
	writes []uint64
	record bool
}

func (m *disMem) Read(a uint32) byte { return m.m[a] }
func (m *disMem) Write(a uint32, v byte) {
	m.m[a] = v
	if m.record {
		m.writes = append(m.writes, uint64(a)<<8|uint64(v))
	}
}
func (m *disMem) Shutdown()            {}
func (m *disMem) Size() uint32         { return 1 << 24 }
func (m *disMem) Clear()               {}
func (m *disMem) Dump(a uint32) []byte { return nil }

type disRig struct {
	sys    *emulator.System
	alt    *cpualt.CPU
	altMem *disMem
}

func newDisRig() *disRig {
	s := &emulator.System{}
	if err := s.CreateEmulator(); err != nil {
		panic(err)
	}
	a := &cpualt.CPU{}
	a.Init()
	m := &disMem{m: map[uint32]byte{}}
	a.Bus.AttachReader(0, 0xFFFFFF, func(ad uint32) uint8 { return m.Read(ad) })
	a.Bus.AttachWriter(0, 0xFFFFFF, func(ad uint32, v uint8) { m.Write(ad, v) })
	return &disRig{s, a, m}
}

func disSet65(c *cpu65c816.CPU, s *disState) {
	c.RK, c.PC, c.M, c.X, c.E = s.RK, s.PC, s.M, s.X, s.E
	c.RA, c.RX, c.RY, c.RAl, c.RAh, c.RXl, c.RYl = s.RA, s.RX, s.RY, s.RAl, s.RAh, s.RXl, s.RYl
	c.N, c.V, c.D, c.I, c.Z, c.C = s.N, s.V, s.D, s.I, s.Z, s.C
	c.Cycles = s.Cycles
}

func disSetAlt(c *cpualt.CPU, s *disState) {
	c.RK, c.PC, c.M, c.X, c.E = s.RK, s.PC, s.M, s.X, s.E
	c.RA, c.RX, c.RY, c.RAl, c.RAh, c.RXl, c.RYl = s.RA, s.RX, s.RY, s.RAl, s.RAh, s.RXl, s.RYl
	c.N, c.V, c.D, c.I, c.Z, c.C = s.N, s.V, s.D, s.I, s.Z, s.C
	c.Cycles = s.Cycles
}

// banks in which the System maps all 64 KiB (WRAM mirror + hwio + ROM, or WRAM)
func disBankMapped(k byte) bool { return k < 0x40 || k == 0x7E || k == 0x7F || (k >= 0x80 && k < 0xC0) }

// returns the raw text of the line; kind: 0 System.RunUntil with Logger, 3 cpu65c816.DisassembleTo, 1 cpualt.DisassembleTo /
// DisassembleCurrentPC, 2 cpualt.Disassemble
func (r *disRig) run(kind int, c *disCase) (text string, panicked bool, applicable bool, changed string) {
	var before func() string
	defer func() {
		if before != nil && !panicked {
			// set by the cases below once the CPU is loaded: compare every field with its value before the call
			changed = before()
		}
	}()
	defer func() {
		if e := recover(); e != nil {
			panicked = true
			text = fmt.Sprint(e)
		}
	}()
	switch kind {
	case 0, 3:
		if !disBankMapped(c.st.RK) || (kind == 0 && c.mypc != c.st.PC) {
			return "", false, false, ""
		}
		s := r.sys
		disSet65(&s.CPU, &c.st)
		snap := disSnapshot(&s.CPU)
		before = func() string { return disDiff(snap, disSnapshot(&s.CPU)) }
		for i := 0; i < 4; i++ {
			s.Bus.EaWrite(c.addr(i), c.mem[i])
		}
		defer func() {
			for i := 0; i < 4; i++ {
				s.Bus.EaWrite(c.addr(i), 0)
			}
			s.Logger = nil
		}()
		if kind == 0 {
			var buf bytes.Buffer
			s.Logger = &buf
			s.RunUntil(s.GetPC(), 1) // logs the line, then stops at the target check without stepping
			return buf.String(), false, true, ""
		}
		return string(s.CPU.DisassembleTo(c.mypc, nil)), false, true, ""
	case 1, 2:
		a := r.alt
		disSetAlt(a, &c.st)
		snap := disSnapshotAlt(a)
		before = func() string { return disDiff(snap, disSnapshotAlt(a)) }
		r.altMem.m = map[uint32]byte{}
		for i := 0; i < 4; i++ {
			r.altMem.m[c.addr(i)] = c.mem[i]
		}
		if kind == 2 {
			return a.Disassemble(c.mypc), false, true, ""
		}
		var buf bytes.Buffer
		if c.mypc == c.st.PC {
			a.DisassembleCurrentPC(&buf)
		} else {
			a.DisassembleTo(c.mypc, &buf)
		}
		return buf.String(), false, true, ""
	}
	return "", false, false, ""
}

// ---------------------------------------------------------------- the Go falsifier of truthfulness (no model)

// returns failure classes with a description; only for states of the property's domain (M, X in {0,1}, myPC = PC)
func disTruth(c *disCase, o *disObs) [][2]string {
	var out [][2]string
	s := &c.st
	if s.M > 1 || s.X > 1 || c.mypc != s.PC {
		return nil
	}
	op := int(c.mem[0])
	mn, mode := disMnMode(op)
	fail := func(class, format string, a ...interface{}) {
		out = append(out, [2]string{class, fmt.Sprintf(format, a...)})
	}
	if o.pbr != s.RK || o.pc != s.PC {
		fail("location", "shows %02x:%04x, state is %02x:%04x", o.pbr, o.pc, s.RK, s.PC)
	}
	n := disLen(mode, s.M == 1, s.X == 1)
	if len(o.bytes) != n {
		fail("length."+mn, "%s (opcode $%02x, %s, M=%d X=%d) occupies %d bytes, the line shows %d", mn, op, mode, s.M, s.X, n, len(o.bytes))
	} else if !bytes.Equal(o.bytes, c.mem[:n]) {
		fail("bytes", "bytes shown %v, memory at PC.. holds %v", o.bytes, c.mem[:n])
	}
	lname := strings.ToLower(o.name)
	if lname != strings.ToLower(mn) && !(mn == "JML" && lname == "jmp") {
		fail("mnemonic", "opcode $%02x is %s, the line says %q", op, mn, o.name)
	}
	ops := c.mem[1:n]
	var wantGroups [][]byte
	wantShape := disShapeOfMode[mode]
	wantBack := false
	rev := func(b []byte) []byte {
		r := make([]byte, len(b))
		for i := range b {
			r[len(b)-1-i] = b[i]
		}
		return r
	}
	switch {
	case mn == "BRK":
		wantShape = 0
	case mn == "PEI":
		wantShape = 3
		wantGroups = [][]byte{rev(ops)}
	case mode == "Imp" || mode == "Acc":
	case mode == "Rel8":
		dest := s.PC + 2 + uint16(int16(int8(ops[0])))
		wantGroups = [][]byte{{ops[0]}, {byte(dest >> 8), byte(dest)}}
		wantBack = ops[0] >= 0x80
	case mode == "Rel16":
		dest := s.PC + 3 + (uint16(ops[0]) | uint16(ops[1])<<8)
		wantGroups = [][]byte{{byte(dest >> 8), byte(dest)}}
	case mode == "BlockMove":
		wantGroups = [][]byte{{ops[1]}, {ops[0]}}
	default:
		wantGroups = [][]byte{rev(ops)}
	}
	if o.shape != wantShape {
		fail("syntax."+mode, "%s %s: operand text %q has shape %d, expected %d", mn, mode, o.raw, o.shape, wantShape)
	}
	same := len(o.groups) == len(wantGroups)
	for i := 0; same && i < len(wantGroups); i++ {
		same = bytes.Equal(o.groups[i], wantGroups[i])
	}
	if !same {
		cls := "operand." + mode
		if mode == "Rel8" || mode == "Rel16" {
			cls = "dest." + strings.ToLower(mode)
		}
		fail(cls, "%s %s at %02x:%04x bytes %v: operand shown %x, expected %x", mn, mode, s.RK, s.PC, c.mem[:n], o.groups, wantGroups)
	}
	if o.back != wantBack && mode == "Rel8" {
		fail("dest.rel8", "%s offset $%02x: direction sign shown backward=%v", mn, ops[0], o.back)
	}
	if o.hasregs {
		wa := disShown{true, s.RA}
		if s.M == 1 {
			wa = disShown{false, uint16(s.RAl)}
		}
		wx, wy := disShown{true, s.RX}, disShown{true, s.RY}
		if s.X == 1 {
			wx, wy = disShown{false, uint16(s.RXl)}, disShown{false, uint16(s.RYl)}
		}
		if o.a != wa || o.x != wx || o.y != wy {
			fail("registers", "A/X/Y shown %v %v %v, expected %v %v %v (M=%d X=%d)", o.a, o.x, o.y, wa, wx, wy, s.M, s.X)
		}
		fl := [8]byte{s.N, s.V, s.M, s.X, s.D, s.I, s.Z, s.C}
		for i := 0; i < 8; i++ {
			if o.flags[i] != (fl[i] != 0) {
				fail("flags", "flag %d shown %v, field value %d", i, o.flags[i], fl[i])
				break
			}
		}
	}
	return out
}

// ---------------------------------------------------------------- case generation

func disGen(rng *cpuRng, thorough bool, emit func(c disCase)) {
	banks := []byte{0x00, 0x00, 0x01, 0x3F, 0x7E, 0x7F, 0x80, 0xBF}
	rb := func() byte { return byte(rng.next()) }
	base := func(tag string, op int, m, x byte) disCase {
		var c disCase
		c.tag = tag
		s := &c.st
		s.RK = banks[rng.n(len(banks))]
		s.PC = uint16(0x8000 + rng.n(0x7F00))
		s.M, s.X = m, x
		s.RA, s.RX, s.RY = uint16(rng.v16()), uint16(rng.v16()), uint16(rng.v16())
		if x == 1 {
			s.RX &= 0xFF
			s.RY &= 0xFF
		}
		s.RAl, s.RAh, s.RXl, s.RYl = byte(s.RA), byte(s.RA>>8), byte(s.RX), byte(s.RY)
		s.N, s.V, s.D, s.I, s.Z, s.C = byte(rng.n(2)), byte(rng.n(2)), byte(rng.n(2)), byte(rng.n(2)), byte(rng.n(2)), byte(rng.n(2))
		s.Cycles = rb()
		c.mem = [4]byte{byte(op), rb(), rb(), rb()}
		c.mypc = s.PC
		return c
	}
	fin := func(c disCase) {
		c.mypc = c.st.PC
		emit(c)
	}
	reps := 1
	if thorough {
		reps = 6
	}
	rel8 := []byte{0x00, 0x7F, 0x80, 0xFC, 0xFF, 0x01, 0xFE, 0x81}
	rel16 := [][2]byte{{0x00, 0x00}, {0xFF, 0x7F}, {0x00, 0x80}, {0xFC, 0xFF}, {0xFF, 0xFF}, {0x01, 0x00}}
	for rep := 0; rep < reps; rep++ {
		for op := 0; op < 256; op++ {
			_, mode := disMnMode(op)
			for mx := 0; mx < 4; mx++ {
				m, x := byte(mx>>1), byte(mx&1)
				// A: operand variants
				switch mode {
				case "Rel8":
					for _, off := range rel8 {
						c := base("rel8", op, m, x)
						c.mem[1] = off
						if rng.n(2) == 0 {
							c.mem[2] = byte(rng.pick(0x00, 0x80, 0xFF, 0x7F)) // what follows the branch must not matter
						}
						fin(c)
					}
					// destination wraps inside the bank
					c := base("rel8wrap", op, m, x)
					c.st.PC = uint16(rng.pick(0xFFF0, 0xFFFE, 0xFFFD, 0x0000, 0x0005, 0x007D))
					c.mem[1] = byte(rng.pick(0x7F, 0x10, 0x80, 0xF0, 0xFD))
					fin(c)
				case "Rel16":
					for _, off := range rel16 {
						c := base("rel16", op, m, x)
						c.mem[1], c.mem[2] = off[0], off[1]
						fin(c)
					}
				default:
					fin(base("op", op, m, x))
					c := base("opb", op, m, x)
					bv := byte(rng.pick(0x00, 0xFF, 0x80, 0x7F))
					c.mem[1], c.mem[2], c.mem[3] = bv, byte(rng.pick(0x00, 0xFF, 0x80, uint32(bv))), byte(rng.pick(0x00, 0xFF, 0x7E))
					fin(c)
				}
			}
			// B: PC near the end / start of the bank: operand bytes wrap inside the bank
			for _, pc := range []uint16{0xFFFC, 0xFFFD, 0xFFFE, 0xFFFF} {
				c := base("bankwrap", op, byte(rng.n(2)), byte(rng.n(2)))
				c.st.PC = pc
				fin(c)
			}
			// C: emulation mode
			{
				c := base("e1", op, 1, 1)
				c.st.E = 1
				if rng.n(4) == 0 { // inconsistent: E=1 with 16-bit widths
					c.st.M, c.st.X = byte(rng.n(2)), byte(rng.n(2))
				}
				fin(c)
			}
			// D: field values outside the consistent range: flags not in {0,1}, stale low-byte copies
			{
				c := base("oddflags", op, byte(rng.pick(0, 1, 2, 3, 0x80, 0xFF)), byte(rng.pick(0, 1, 2, 3, 0x80, 0xFF)))
				c.st.N, c.st.V, c.st.Z = byte(rng.pick(0, 1, 2, 0x80, 0xFF)), byte(rng.pick(0, 1, 2, 0x80)), byte(rng.pick(0, 1, 0xFF))
				fin(c)
				c = base("stale", op, byte(rng.n(2)), byte(rng.n(2)))
				c.st.RAl, c.st.RXl, c.st.RYl = rb(), rb(), rb()
				c.st.RX, c.st.RY = uint16(rng.v16()), uint16(rng.v16())
				fin(c)
			}
			// E: DisassembleTo with myPC != PC (relative destinations are computed from c.PC)
			{
				c := base("mypc", op, byte(rng.n(2)), byte(rng.n(2)))
				c.mypc = uint16(rng.pick(0x8000, 0xFFFE, 0xFFFF, 0x0000, uint32(c.st.PC)+1, uint32(rng.next()&0xFFFF)))
				emit(c)
			}
		}
	}
}

// ---------------------------------------------------------------- command: discases

func disCasesCmd(args []string) int {
	fs := flag.NewFlagSet("discases", flag.ExitOnError)
	seed := fs.Uint64("seed", 1, "")
	tier := fs.String("tier", "quick", "")
	corpus := fs.String("corpus", "", "directory of corpus case files (run first)")
	outPath := fs.String("out", "", "cases file for the Coq tie")
	progs := fs.Int("progs", 40, "traced programs (lines taken from real runs)")
	corpusOnly := fs.Bool("corpus-only", false, "run the corpus cases only (replay)")
	fs.Parse(args)
	rng := &cpuRng{s: *seed*0x9E3779B97F4A7C15 + 0x7654321}
	rig := newDisRig()
	var w *bufio.Writer
	if *outPath != "" {
		f, err := os.Create(*outPath)
		if err != nil {
			fmt.Println(err)
			return 2
		}
		defer f.Close()
		w = bufio.NewWriter(f)
		defer w.Flush()
	}
	stats := map[string]int{}
	failSeen := map[string]int{}
	id := 0
	distinct := map[string]bool{}
	runCase := func(c disCase) {
		c.id = id
		id++
		stats["cases"]++
		stats["tag_"+c.tag]++
		_, mode := disMnMode(int(c.mem[0]))
		stats["mode_"+mode]++
		distinct[fmt.Sprintf("%d/%d/%d/%s", c.mem[0], c.st.M, c.st.X, c.tag)] = true
		for _, kind := range []int{0, 1, 2, 3} {
			if kind == 3 && !(c.mypc != c.st.PC || c.id%4 == 0) {
				continue
			}
			text, panicked, ok, changed := rig.run(kind, &c)
			if !ok {
				continue
			}
			stats[fmt.Sprintf("lines_kind%d", kind)]++
			var obsText string
			var o *disObs
			var perr error
			if panicked {
				obsText = "PANIC"
				stats["panics"]++
			} else {
				o, perr = disParseLine(kind, text)
				if perr != nil {
					obsText = "UNPARSED " + strconv.Quote(text) + " " + strconv.Quote(perr.Error())
					stats["unparsed"]++
				} else {
					o.pure = changed == ""
					obsText = o.text()
				}
			}
			if w != nil {
				var rs []string
				for i, n := range disRegNames {
					rs = append(rs, fmt.Sprintf("%s=%d", n, c.st.regVals()[i]))
				}
				var ms []string
				seen := map[uint32]bool{}
				for i := 0; i < 4; i++ {
					if !seen[c.addr(i)] {
						ms = append(ms, fmt.Sprintf("%d=%d", c.addr(i), c.mem[i]))
						seen[c.addr(i)] = true
					}
				}
				fmt.Fprintf(w, "K %d %d %d R %s M %s O %s T %s\n", c.id, kind, c.mypc, strings.Join(rs, " "), strings.Join(ms, " "), obsText, c.tag)
			}
			// falsifier
			var fails [][2]string
			if panicked {
				fails = [][2]string{{"panic", "the disassembler panicked: " + text}}
			} else if perr != nil {
				if c.st.M <= 1 && c.st.X <= 1 {
					fails = [][2]string{{"format", "line not of the documented form: " + perr.Error()}}
				}
			} else {
				fails = disTruth(&c, o)
			}
			if changed != "" {
				fails = append(fails, [2]string{"perturb.call", "the call changed CPU fields: " + changed})
			}
			for _, f := range fails {
				key := f[0]
				failSeen[key]++
				stats["fail_"+key]++
				if failSeen[key] <= 2 {
					fmt.Printf("FAIL C14 key=%s kind=%d case=%d\n  input: %s\n  line: %s\n  why: %s\n", key, kind, c.id, c.text(), strconv.Quote(text), f[1])
				}
			}
		}
	}
	// corpus first
	if *corpus != "" {
		files, _ := filepath.Glob(filepath.Join(*corpus, "*.case"))
		sort.Strings(files)
		for _, fn := range files {
			data, err := os.ReadFile(fn)
			if err != nil {
				continue
			}
			for _, line := range strings.Split(string(data), "\n") {
				line = strings.TrimSpace(line)
				if line == "" || strings.HasPrefix(line, "#") {
					continue
				}
				c, err := disParseCase(line)
				if err != nil {
					fmt.Printf("corpus %s: %v\n", fn, err)
					return 2
				}
				c.tag = "corpus:" + c.tag
				runCase(c)
				stats["corpus"]++
			}
		}
	}
	if *corpusOnly {
		*progs = 0
	} else {
		disGen(rng, *tier == "thorough", runCase)
	}
	// lines taken from real runs: single-stepped through System.RunUntil(target, 1) so that the state
	// before each line is known
	np := *progs
	if *tier == "thorough" {
		np *= 8
	}
	for p := 0; p < np; p++ {
		pr := disGenProgram(rng)
		s := rig.sys
		pr.load(s)
		func() {
			defer func() { recover() }()
			for step := 0; step < 24; step++ {
				var c disCase
				c.tag = "trace"
				cp := &s.CPU
				c.st = disState{RK: cp.RK, PC: cp.PC, M: cp.M, X: cp.X, E: cp.E, RA: cp.RA, RX: cp.RX, RY: cp.RY, RAl: cp.RAl, RAh: cp.RAh,
					RXl: cp.RXl, RYl: cp.RYl, N: cp.N, V: cp.V, D: cp.D, I: cp.I, Z: cp.Z, C: cp.C, Cycles: cp.Cycles}
				c.mypc = cp.PC
				if !disBankMapped(cp.RK) {
					return
				}
				for i := 0; i < 4; i++ {
					c.mem[i] = s.Bus.EaRead(c.addr(i))
				}
				var buf bytes.Buffer
				s.Logger = &buf
				s.RunUntil(0xFFFFFFFF, 1) // one line, one step
				s.Logger = nil
				c.id = id
				id++
				stats["cases"]++
				stats["tag_trace"]++
				stats["lines_kind0"]++
				text := buf.String()
				o, perr := disParseLine(0, text)
				obsText := ""
				if perr != nil {
					obsText = "UNPARSED " + strconv.Quote(text) + " " + strconv.Quote(perr.Error())
					stats["unparsed"]++
				} else {
					o.pure = true // the state moves on by the Step that follows the line; covered by disrun
					obsText = o.text()
					for _, f := range disTruth(&c, o) {
						failSeen[f[0]]++
						stats["fail_"+f[0]]++
						if failSeen[f[0]] <= 2 {
							fmt.Printf("FAIL C14 key=%s kind=0 case=%d\n  input: %s\n  line: %s\n  why: %s\n", f[0], c.id, c.text(), strconv.Quote(text), f[1])
						}
					}
				}
				if w != nil {
					var rs []string
					for i, n := range disRegNames {
						rs = append(rs, fmt.Sprintf("%s=%d", n, c.st.regVals()[i]))
					}
					var ms []string
					seen := map[uint32]bool{}
					for i := 0; i < 4; i++ {
						if !seen[c.addr(i)] {
							ms = append(ms, fmt.Sprintf("%d=%d", c.addr(i), c.mem[i]))
							seen[c.addr(i)] = true
						}
					}
					fmt.Fprintf(w, "K %d 0 %d R %s M %s O %s T trace\n", c.id, c.mypc, strings.Join(rs, " "), strings.Join(ms, " "), obsText)
				}
			}
		}()
		pr.unload(s)
	}
	stats["distinct"] = len(distinct)
	keys := make([]string, 0, len(stats))
	for k := range stats {
		keys = append(keys, k)
	}
	sort.Strings(keys)
	for _, k := range keys {
		fmt.Printf("STAT %s %d\n", k, stats[k])
	}
	return 0
}

// ---------------------------------------------------------------- programs for the run falsifier

type disProgram struct {
	start uint32
	code  []byte
	st    disState
	sp    uint16
	dbr   byte
	rd    uint16
}

func disGenProgram(rng *cpuRng) disProgram {
	var p disProgram
	p.start = rng.pick(0x008000, 0x008000, 0x018000, 0x7E2000, 0x80FF00, 0x00FFE0)
	s := &p.st
	s.RK, s.PC = byte(p.start>>16), uint16(p.start)
	s.M, s.X = byte(rng.n(2)), byte(rng.n(2))
	if rng.n(5) == 0 {
		s.E, s.M, s.X = 1, 1, 1
	}
	s.RA, s.RX, s.RY = uint16(rng.v16()), uint16(rng.v16()), uint16(rng.v16())
	if s.X == 1 {
		s.RX &= 0xFF
		s.RY &= 0xFF
	}
	s.RAl, s.RAh, s.RXl, s.RYl = byte(s.RA), byte(s.RA>>8), byte(s.RX), byte(s.RY)
	s.C, s.Z, s.N, s.V = byte(rng.n(2)), byte(rng.n(2)), byte(rng.n(2)), byte(rng.n(2))
	p.sp = 0x01FF
	p.dbr = byte(rng.pick(0x00, 0x7E, 0x7F, 0x00))
	p.rd = uint16(rng.pick(0x0000, 0x0000, 0x0100, 0x00FF))
	// instructions that keep a run inside mapped memory most of the time, plus random ones
	safe := []int{0xA9, 0xA2, 0xA0, 0x85, 0x86, 0x84, 0x8D, 0xAD, 0xE8, 0xC8, 0xCA, 0x88, 0x18, 0x38, 0x69, 0xE9, 0xC9, 0xE0, 0xC0,
		0x48, 0x68, 0xDA, 0xFA, 0x5A, 0x7A, 0x08, 0x28, 0xC2, 0xE2, 0xEB, 0xAA, 0xA8, 0x8A, 0x98, 0x9B, 0xBB, 0x1A, 0x3A, 0x0A, 0x4A,
		0x2A, 0x6A, 0xE6, 0xC6, 0x64, 0x9C, 0x29, 0x09, 0x49, 0x24, 0x89, 0xEA, 0x42, 0xF4, 0x62, 0xD4, 0x8B, 0xAB, 0x0B, 0x2B, 0x4B,
		0xB5, 0x95, 0xBD, 0x9D, 0xB9, 0x99, 0xA5, 0xA6, 0xA4, 0xFB, 0x54, 0x44,
		0xD0, 0xF0, 0x10, 0x30, 0x90, 0xB0, 0x50, 0x70, 0x80, 0x82}
	for len(p.code) < 96 {
		op := safe[rng.n(len(safe))]
		if rng.n(12) == 0 {
			op = rng.n(256)
		}
		_, mode := disMnMode(op)
		n := disLen(mode, false, false) // longest form; shorter forms then execute the spare byte as an opcode
		if rng.n(2) == 0 {
			n = disLen(mode, true, true)
		}
		p.code = append(p.code, byte(op))
		for i := 1; i < n; i++ {
			b := byte(rng.next())
			if mode == "Rel8" {
				b = byte(rng.pick(0x00, 0x02, 0x05, 0xFC, 0xF8, 0xFE, 0x10, 0x80, 0x7F))
			}
			if mode == "Rel16" && i == 2 {
				b = byte(rng.pick(0x00, 0x00, 0xFF))
			}
			if (mode == "Abs" || mode == "AbsX" || mode == "AbsY") && i == 2 {
				b &= 0x1F // WRAM mirror
			}
			if mode == "BlockMove" {
				b = byte(rng.pick(0x7E, 0x7F, 0x00))
			}
			p.code = append(p.code, b)
		}
	}
	return p
}

func (p *disProgram) load(s *emulator.System) {
	s.CPU.Init(&s.Bus)
	disSet65(&s.CPU, &p.st)
	s.CPU.SP, s.CPU.RDBR, s.CPU.RD = p.sp, p.dbr, p.rd
	s.CPU.Cycles = 0
	for i, b := range p.code {
		a := p.start&0xFF0000 | (p.start+uint32(i))&0xFFFF
		s.Bus.EaWrite(a, b)
	}
}

func (p *disProgram) unload(s *emulator.System) {
	for i := range p.code {
		a := p.start&0xFF0000 | (p.start+uint32(i))&0xFFFF
		s.Bus.EaWrite(a, 0)
	}
}

// every integer / bool field of the CPU struct, nested structs included, by reflection
func disCPUFields(v reflect.Value, prefix string, out *[]string) {
	t := v.Type()
	for i := 0; i < t.NumField(); i++ {
		f := v.Field(i)
		name := prefix + t.Field(i).Name
		switch f.Kind() {
		case reflect.Uint8, reflect.Uint16, reflect.Uint32, reflect.Uint64, reflect.Uint, reflect.Int, reflect.Int64, reflect.Int32:
			if f.CanUint() {
				*out = append(*out, fmt.Sprintf("%s=%d", name, f.Uint()))
			} else {
				*out = append(*out, fmt.Sprintf("%s=%d", name, f.Int()))
			}
		case reflect.Bool:
			*out = append(*out, fmt.Sprintf("%s=%v", name, f.Bool()))
		case reflect.Struct:
			disCPUFields(f, name+".", out)
		}
	}
}

func disSnapshot(c *cpu65c816.CPU) string {
	var out []string
	disCPUFields(reflect.ValueOf(c).Elem(), "", &out)
	return strings.Join(out, " ")
}

// cpualt: the Bus is embedded by value; its open-bus byte M is a latch of the last bus access and is excluded
func disSnapshotAlt(c *cpualt.CPU) string {
	var out []string
	v := reflect.ValueOf(c).Elem()
	t := v.Type()
	for i := 0; i < t.NumField(); i++ {
		if t.Field(i).Name == "Bus" {
			continue
		}
		f := v.Field(i)
		switch f.Kind() {
		case reflect.Struct:
			disCPUFields(f, t.Field(i).Name+".", &out)
		case reflect.Uint8, reflect.Uint16, reflect.Uint32, reflect.Uint64:
			out = append(out, fmt.Sprintf("%s=%d", t.Field(i).Name, f.Uint()))
		case reflect.Bool:
			out = append(out, fmt.Sprintf("%s=%v", t.Field(i).Name, f.Bool()))
		}
	}
	return strings.Join(out, " ")
}

func disDiff(a, b string) string {
	if a == b {
		return ""
	}
	fa, fb := strings.Fields(a), strings.Fields(b)
	var d []string
	for i := range fa {
		if i < len(fb) && fa[i] != fb[i] {
			d = append(d, fa[i]+" -> "+fb[i])
		}
	}
	return strings.Join(d, ", ")
}

type disCommitLogger struct {
	bytes.Buffer
	reserved, committed int
}

func (l *disCommitLogger) Reserve(n int) { l.reserved++; l.Grow(n) }
func (l *disCommitLogger) Commit()       { l.committed++ }

// ---------------------------------------------------------------- command: disrun

func disRunCmd(args []string) int {
	fs := flag.NewFlagSet("disrun", flag.ExitOnError)
	seed := fs.Uint64("seed", 1, "")
	n := fs.Int("n", 60, "programs")
	only := fs.Int("only", -1, "run only this program index (replay)")
	fs.Parse(args)
	rng := &cpuRng{s: *seed*0x9E3779B97F4A7C15 + 0x2468ACE}
	mk := func(flat bool) (*emulator.System, *disMem) {
		s := &emulator.System{}
		if err := s.CreateEmulator(); err != nil {
			panic(err)
		}
		var m *disMem
		if flat {
			m = &disMem{m: map[uint32]byte{}}
			if err := s.Bus.Attach(m, "flat", 0, 0xFFFFFF); err != nil {
				panic(err)
			}
		}
		return s, m
	}
	sysA, _ := mk(false)
	sysB, _ := mk(false)
	flatA, memA := mk(true)
	flatB, memB := mk(true)
	stats := map[string]int{}
	fails := 0
	for i := 0; i < *n; i++ {
		p := disGenProgram(rng)
		target := p.start&0xFF0000 | (p.start+uint32(rng.n(len(p.code))))&0xFFFF
		if rng.n(3) == 0 {
			target = 0x123456
		}
		maxc := uint64(rng.pick(1, 2, 7, 50, 200, 400, 0x101, 600))
		useFlat := i%2 == 1
		useCommit := rng.n(2) == 0
		if *only >= 0 && i != *only {
			continue
		}
		a, b := sysA, sysB
		if useFlat {
			a, b = flatA, flatB
			memA.m, memB.m = map[uint32]byte{}, map[uint32]byte{}
			memA.writes, memB.writes = nil, nil
			memA.record, memB.record = false, false
		}
		p.load(a)
		p.load(b)
		if useFlat {
			memA.record, memB.record = true, true
		}
		var logger interface {
			Len() int
			Write([]byte) (int, error)
		}
		cl := &disCommitLogger{}
		if useCommit {
			a.Logger = cl
			logger = cl
		} else {
			bb := &bytes.Buffer{}
			a.Logger = bb
			logger = bb
		}
		b.Logger = nil
		run := func(s *emulator.System) (reached bool, panicked string) {
			defer func() {
				if e := recover(); e != nil {
					panicked = fmt.Sprint(e)
				}
			}()
			reached = s.RunUntil(target, maxc)
			return
		}
		ra, pa := run(a)
		rb, pb := run(b)
		a.Logger = nil
		stats["programs"]++
		stats["log_bytes"] += logger.Len()
		if logger.Len() > 0 {
			stats["programs_with_lines"]++
		}
		if pa != "" {
			stats["panicked"]++
		}
		if ra {
			stats["reached_target"]++
		}
		report := func(what, detail string) {
			fails++
			stats["fail_"+what]++
			if fails <= 3 {
				fmt.Printf("FAIL C14 key=perturb.%s program=%d seed=%d flat=%v start=%06x target=%06x maxCycles=%d\n  code: %x\n  %s\n",
					what, i, *seed, useFlat, p.start, target, maxc, p.code, detail)
			}
		}
		if ra != rb || pa != pb {
			report("result", fmt.Sprintf("with logger: reached=%v panic=%q; without: reached=%v panic=%q", ra, pa, rb, pb))
		}
		// when both runs crash (a Go panic, e.g. PC in unmapped memory) there is no final state to speak of: RunUntil did not
		// return; the logged run crashes in the disassembler's fetch, the other in Step's fetch of the same byte (after
		// Step has recorded PPC/PRK).  Memory is still compared.
		sa, sb := disSnapshot(&a.CPU), disSnapshot(&b.CPU)
		if sa != sb && !(pa != "" && pb != "") {
			report("cpu", "CPU fields with logger:    "+sa+"\n  CPU fields without logger: "+sb)
		}
		if useFlat {
			same := len(memA.writes) == len(memB.writes)
			for k := 0; same && k < len(memA.writes); k++ {
				same = memA.writes[k] == memB.writes[k]
			}
			if !same {
				report("writes", fmt.Sprintf("sequence of memory writes differs: %d vs %d writes", len(memA.writes), len(memB.writes)))
			}
			stats["writes_compared"] += len(memA.writes)
			memA.record, memB.record = false, false
		} else {
			if !bytes.Equal(a.WRAM[:], b.WRAM[:]) || !bytes.Equal(a.SRAM[:], b.SRAM[:]) || !bytes.Equal(a.ROM[:], b.ROM[:]) {
				report("memory", "WRAM / SRAM / ROM contents differ")
			}
			for off := uint32(0x2000); off < 0x8000; off++ {
				if a.Bus.EaRead(off) != b.Bus.EaRead(off) {
					report("memory", fmt.Sprintf("hwio contents differ at %04x", off))
					break
				}
			}
			stats["bytes_compared"] += len(a.WRAM) + len(a.SRAM) + len(a.ROM) + 0x6000
		}
		if c, ok := logger.(*disCommitLogger); ok && pa == "" && (c.reserved != 1 || c.committed != 1) {
			report("logger", fmt.Sprintf("Reserve called %d times, Commit %d times", c.reserved, c.committed))
		}
		// clean up for the next program (system map only: memory is shared state of the two systems)
		if !useFlat {
			for _, s := range []*emulator.System{a, b} {
				for k := range s.WRAM {
					s.WRAM[k] = 0
				}
				for k := range s.SRAM {
					s.SRAM[k] = 0
				}
				p.unload(s)
			}
			// stray writes into the ROM arrays or hwio: rebuild only when they happened
			var zero [0x10000]byte
			dirty := false
			for k := 0; k < len(a.ROM) && !dirty; k += 0x10000 {
				dirty = !bytes.Equal(a.ROM[k:k+0x10000], zero[:])
			}
			for off := uint32(0x2000); off < 0x8000 && !dirty; off++ {
				dirty = a.Bus.EaRead(off) != 0
			}
			if dirty {
				sysA, _ = mk(false)
				sysB, _ = mk(false)
				stats["systems_rebuilt"]++
			}
		}
	}
	keys := make([]string, 0, len(stats))
	for k := range stats {
		keys = append(keys, k)
	}
	sort.Strings(keys)
	for _, k := range keys {
		fmt.Printf("STAT %s %d\n", k, stats[k])
	}
	return 0
}

// ---------------------------------------------------------------- command: disreplay  (one case, all kinds)

func disReplayCmd(args []string) int {
	c, err := disParseCase(strings.Join(args, " "))
	if err != nil {
		fmt.Println(err)
		return 2
	}
	rig := newDisRig()
	rc := 0
	for _, kind := range []int{0, 1, 2, 3} {
		text, panicked, ok, changed := rig.run(kind, &c)
		if !ok {
			continue
		}
		if changed != "" {
			fmt.Printf("kind=%d FAIL C14 key=perturb.call the call changed CPU fields: %s\n", kind, changed)
			rc = 1
		}
		if panicked {
			fmt.Printf("kind=%d PANIC %s\n", kind, text)
			rc = 1
			continue
		}
		fmt.Printf("kind=%d line: %s\n", kind, strconv.Quote(text))
		o, perr := disParseLine(kind, text)
		if perr != nil {
			fmt.Printf("  unparsed: %v\n", perr)
			rc = 1
			continue
		}
		for _, f := range disTruth(&c, o) {
			fmt.Printf("  FAIL C14 key=%s %s\n", f[0], f[1])
			rc = 1
		}
	}
	if rc == 0 {
		fmt.Println("case no longer fails on the current tree")
	}
	return rc
}

func init() {
	commands["discases"] = disCasesCmd
	commands["disrun"] = disRunCmd
	commands["disreplay"] = disReplayCmd
}
