package main

// C07 harness: random straight-line programs are assembled by the REAL asm.Emitter and executed on BOTH
// real interpreters (cpu65c816 on a bus.Bus, cpualt) from the program's base with M / X := the widths the
// assembler tracked at its first emission.  Falsifier: before every Step the CPU's PBR:PC must be the
// Emitter.PC() recorded before the corresponding call, the first bus access of the step must be the opcode
// fetch at that address, and after the last instruction M / X must equal not IsM16bit / not IsX16bit; an
// immediate method must panic exactly when its operand size disagrees with the tracked width.
// A program may contain the emitter's conditional-branch methods (rel8 and label-taking forms): a pilot of each
// interpreter is stepped while the program is being assembled, and a branch is only emitted when its condition is false
// in the current flags of both pilots (own statement of the conditions, cplCond) -- such a branch is straight-line in the property's sense.
// Half of the programs are run on the bytes as patched by Finalize (label operands resolved or not), the other half
// on the placeholders: a branch that is not taken must not care.
// A program may also contain the block move MVN (at most two): the CPU then fetches the instruction's own start again
// and again until the count runs out; the falsifier allows exactly that repetition and nothing else.
// Tie: every program is also printed (calls, arguments, PC() before each call, refusals, final flags,
// bytes) so that the check can have Coq replay it on Model/Emitter.v through the regenerated descriptors.

import (
	"bufio"
	"flag"
	"fmt"
	"os"
	"reflect"
	"sort"
	"strings"

	"github.com/alttpo/snes/asm"
	"github.com/alttpo/snes/emulator/cpu65c816"
	"github.com/alttpo/snes/emulator/cpualt"
)

// conditional branches: which flag, and the value of it under which the branch is TAKEN (WDC instruction set)
type cplCondT struct {
	flag  byte
	taken byte
}

var cplCond = map[string]cplCondT{
	"BPL": {'n', 0}, "BMI": {'n', 1}, "BVC": {'v', 0}, "BVS": {'v', 1},
	"BCC": {'c', 0}, "BCS": {'c', 1}, "BNE": {'z', 0}, "BEQ": {'z', 1},
}

// mnemonics that are not straight-line (own statement, from the WDC instruction set)
var cplNotStraight = map[string]bool{
	"BCC": true, "BCS": true, "BEQ": true, "BMI": true, "BNE": true, "BPL": true, "BRA": true, "BRL": true, "BVC": true, "BVS": true,
	"JML": true, "JMP": true, "JSL": true, "JSR": true, "RTI": true, "RTL": true, "RTS": true, "BRK": true, "COP": true,
	"PLP": true, "XCE": true, "STP": true, "WAI": true, "MVN": true, "MVP": true,
}

// exported methods of *asm.Emitter that are not instruction methods
var cplOther = map[string]bool{
	"Append": true, "AssumeREP": true, "AssumeSEP": true, "Bytes": true, "Cap": true, "Clone": true, "Comment": true,
	"EmitBytes": true, "Finalize": true, "Flags": true, "GetBase": true, "GetLabel": true, "IsM16bit": true, "IsX16bit": true,
	"Label": true, "Len": true, "PC": true, "SetBase": true, "WriteHexTo": true, "WriteTextTo": true,
}

type cplMethod struct {
	name     string
	idx      int
	params   []reflect.Type
	straight bool
	hasLabel bool
	cond     string // mnemonic, for a conditional branch
	move     bool   // block move (MVN / MVP)
	// width requirement by the name convention: 0 none, 8 / 16 operand bits; onX = index registers
	immBits int
	onX     bool
}

func cplMnemonic(name string) string {
	if i := strings.IndexByte(name, '_'); i >= 0 {
		return name[:i]
	}
	return name
}

func cplMethods() []cplMethod {
	t := reflect.TypeOf(&asm.Emitter{})
	var ms []cplMethod
	for i := 0; i < t.NumMethod(); i++ {
		m := t.Method(i)
		if cplOther[m.Name] {
			continue
		}
		cm := cplMethod{name: m.Name, idx: i}
		for j := 1; j < m.Type.NumIn(); j++ {
			pt := m.Type.In(j)
			cm.params = append(cm.params, pt)
			if pt.Kind() == reflect.String {
				cm.hasLabel = true
			}
		}
		mn := cplMnemonic(m.Name)
		cm.straight = !cplNotStraight[mn] && !cm.hasLabel
		if _, ok := cplCond[mn]; ok {
			cm.cond = mn
			cm.straight = true // as long as it is not taken
		}
		if mn == "MVN" || mn == "MVP" {
			cm.move = true
			cm.straight = true // repeats its own start, transfers control nowhere else
		}
		suf := ""
		if i := strings.IndexByte(m.Name, '_'); i >= 0 {
			suf = m.Name[i+1:]
		}
		switch suf {
		case "imm8_b":
			cm.immBits = 8
		case "imm16_w", "imm16_lh":
			cm.immBits = 16
		}
		cm.onX = mn == "LDX" || mn == "LDY" || mn == "CPX" || mn == "CPY"
		ms = append(ms, cm)
	}
	sort.Slice(ms, func(a, b int) bool { return ms[a].name < ms[b].name })
	return ms
}

func (m *cplMethod) expectRefused(m16, x16 bool) bool {
	if m.immBits == 0 {
		return false
	}
	w16 := m16
	if m.onX {
		w16 = x16
	}
	return (m.immBits == 16) != w16
}

// one call of the program
type cplCall struct {
	kind    byte // 'I' instruction method, 'B' instruction method taking a label (args = label id), 'S' SetBase, 'R' AssumeREP, 'P' AssumeSEP, 'C' Comment, 'L' Label
	name    string
	args    []int64
	pc      uint32 // Emitter.PC() before the call
	refused bool
	isIns   bool
}

func (c *cplCall) String() string {
	as := make([]string, len(c.args))
	for i, a := range c.args {
		as[i] = fmt.Sprint(a)
	}
	r := 0
	if c.refused {
		r = 1
	}
	return fmt.Sprintf("%c:%s:%s:%d:%d", c.kind, c.name, strings.Join(as, ","), c.pc, r)
}

func cplCallMethod(em *asm.Emitter, m *cplMethod, args []int64) (refused bool, msg string) {
	defer func() {
		if e := recover(); e != nil {
			refused = true
			msg = fmt.Sprint(e)
		}
	}()
	in := make([]reflect.Value, len(args))
	for i, a := range args {
		v := reflect.New(m.params[i]).Elem()
		switch m.params[i].Kind() {
		case reflect.Int8:
			v.SetInt(a)
		case reflect.String:
			v.SetString(cplLabelName(a))
		default:
			v.SetUint(uint64(a))
		}
		in[i] = v
	}
	reflect.ValueOf(em).Method(m.idx).Call(in)
	return
}

// label ids: 1.. = labels defined by the program ("l<id>"), 1000.. = forward references ("f<id>")
func cplLabelName(id int64) string {
	if id >= 1000 {
		return fmt.Sprintf("f%d", id)
	}
	return fmt.Sprintf("l%d", id)
}

func cplRandArgs(r *cpuRng, m *cplMethod) []int64 {
	var as []int64
	for _, pt := range m.params {
		switch pt.Kind() {
		case reflect.Uint8:
			as = append(as, int64(r.v8()))
		case reflect.Int8:
			as = append(as, int64(int8(r.v8())))
		case reflect.Uint16:
			as = append(as, int64(r.v16()))
		case reflect.Uint32:
			v := uint32(r.next()) & 0xFFFFFF
			if r.n(4) == 0 {
				v |= uint32(r.n(256)) << 24 // garbage in the unused byte of a 24-bit operand
			}
			as = append(as, int64(v))
		default:
			as = append(as, 0)
		}
	}
	return as
}

type cplProg struct {
	id      int
	capLen  int
	calls   []cplCall
	flags   uint8 // tracked flags at the end
	bytes   []byte
	base    uint32 // PC() at the first instruction call
	m0, x0  byte   // CPU M / X at the first emission
	nIns    int
	starts  []uint32
	finalPC uint32
	isMove  []bool // per accepted instruction: a block move (may be fetched repeatedly)
	nMove   int
	patched []byte // Bytes() after Finalize (label operands patched where the label resolved)
	finErr  string
	nBranch int
}

// the pilots: one instance of each interpreter stepped over the program while it is being assembled; their flags
// decide which conditional branches may be emitted (those whose condition is false on both)
type cplPilot struct {
	r       *run65
	ra      *runAlt
	none    byte
	noneAlt byte
	regs    cplRegs
	mseed   uint32
	alive   bool
	loaded  int
	base    uint32
}

func cplSetAlt(c *cpualt.CPU, base uint32, m0, x0 byte, regs cplRegs, none byte) {
	c.RK, c.PC = byte(base>>16), uint16(base)
	c.M, c.X, c.E, c.Interrupt = m0, x0, 0, none
	c.RA, c.RX, c.RY, c.SP, c.RD, c.RDBR = regs.ra, regs.rx, regs.ry, regs.sp, regs.rd, regs.dbr
	c.RAl, c.RAh, c.RXl, c.RYl = byte(regs.ra), byte(regs.ra>>8), byte(regs.rx), byte(regs.ry)
	if x0 == 1 {
		c.RX, c.RY = c.RX&0xFF, c.RY&0xFF
	}
	c.C, c.Z, c.I, c.D, c.V, c.N = regs.c, regs.z, regs.i, regs.d, regs.v, regs.n
	c.Stopped, c.OnWDM, c.OnPC = false, nil, nil
}

func cplSet65(c *cpu65c816.CPU, base uint32, m0, x0 byte, regs cplRegs, none byte) {
	c.RK, c.PC = byte(base>>16), uint16(base)
	c.M, c.X, c.E, c.Interrupt = m0, x0, 0, none
	c.RA, c.RX, c.RY, c.SP, c.RD, c.RDBR = regs.ra, regs.rx, regs.ry, regs.sp, regs.rd, regs.dbr
	c.RAl, c.RAh, c.RXl, c.RYl = byte(regs.ra), byte(regs.ra>>8), byte(regs.rx), byte(regs.ry)
	if x0 == 1 {
		c.RX, c.RY = c.RX&0xFF, c.RY&0xFF
	}
	c.C, c.Z, c.I, c.D, c.V, c.N = regs.c, regs.z, regs.i, regs.d, regs.v, regs.n
	c.Stopped, c.OnWDM, c.OnPC = false, nil, nil
}

func (pl *cplPilot) start(base uint32, m0, x0 byte) {
	pl.r.mem.seed = pl.mseed
	pl.r.mem.ov = map[uint32]byte{}
	pl.r.mem.trace = nil
	pl.ra.mem.seed = pl.mseed
	pl.ra.mem.ov = map[uint32]byte{}
	pl.ra.mem.trace = nil
	pl.base, pl.loaded, pl.alive = base, 0, true
	cplSet65(pl.r.cpu, base, m0, x0, pl.regs, pl.none)
	cplSetAlt(pl.ra.cpu, base, m0, x0, pl.regs, pl.noneAlt)
}

// step: load what the assembler appended since the last call, execute one instruction
func (pl *cplPilot) step(code []byte) {
	if !pl.alive {
		return
	}
	for ; pl.loaded < len(code); pl.loaded++ {
		pl.r.mem.ov[pl.base+uint32(pl.loaded)] = code[pl.loaded]
		pl.ra.mem.ov[pl.base+uint32(pl.loaded)] = code[pl.loaded]
	}
	defer func() {
		if e := recover(); e != nil {
			pl.alive = false
		}
	}()
	pl.r.mem.trace = pl.r.mem.trace[:0]
	pl.ra.mem.trace = pl.ra.mem.trace[:0]
	pl.r.cpu.Step()
	pl.ra.cpu.Step()
}

// stepMove: a block move repeats itself; step the pilots until both have left it (bounded by the 16-bit count)
func (pl *cplPilot) stepMove(code []byte, at uint32) {
	pl.step(code)
	for i := 0; i < 0x10000 && pl.alive; i++ {
		a := uint32(pl.r.cpu.RK)<<16 | uint32(pl.r.cpu.PC)
		b := uint32(pl.ra.cpu.RK)<<16 | uint32(pl.ra.cpu.PC)
		if a != at && b != at {
			return
		}
		func() {
			defer func() {
				if e := recover(); e != nil {
					pl.alive = false
				}
			}()
			if a == at {
				pl.r.cpu.Step()
			}
			if b == at {
				pl.ra.cpu.Step()
			}
		}()
	}
}

// notTaken: would this conditional branch fall through in the pilot's current state?
func (pl *cplPilot) notTaken(mn string) bool {
	c, ca := pl.r.cpu, pl.ra.cpu
	cd := cplCond[mn]
	var f, fa byte
	switch cd.flag {
	case 'n':
		f, fa = c.N, ca.N
	case 'v':
		f, fa = c.V, ca.V
	case 'c':
		f, fa = c.C, ca.C
	case 'z':
		f, fa = c.Z, ca.Z
	}
	// On a tree where the two interpreters agree (C02) this is "falls through in both".  When their flags DIFFER the
	// branch is still offered (it falls through in one of them): the other interpreter then takes it and leaves the
	// assembler's instruction starts, which the run below reports - a flag the CPU computes wrongly is exactly how a
	// not-taken branch of a straight-line program ends up taken
	return f != cd.taken || fa != cd.taken
}

// cplGen assembles one random straight-line program with the real Emitter
func cplGen(r *cpuRng, id int, ms []cplMethod, straightIdx []int, maxlen int, endAt int, pl *cplPilot) *cplProg {
	p := &cplProg{id: id}
	nwant := 1 + r.n(maxlen)
	p.capLen = 4*nwant + r.n(8)
	buf := make([]byte, p.capLen)
	em := asm.NewEmitter(buf[:p.capLen:p.capLen], r.n(4) == 0)
	// base: anywhere in the 24-bit space such that the program cannot cross the bank end; sometimes it ends exactly there
	bank := uint32(r.n(256))
	off := uint32(r.n(0x10000 - p.capLen))
	switch r.n(8) {
	case 0:
		off = uint32(0x10000 - p.capLen) // may end exactly at the bank end if the buffer is filled
	case 1:
		off = 0
	case 2:
		bank = 0
	}
	if endAt >= 0 && endAt <= 0x10000 {
		off = uint32(0x10000 - endAt) // second pass: the program ends exactly at the bank end
	}
	base := bank<<16 | off
	record := func(c cplCall) { p.calls = append(p.calls, c) }
	record(cplCall{kind: 'S', args: []int64{int64(base)}, pc: em.PC()})
	em.SetBase(base)
	// every initial width assumption, made by any mixture of Assume calls
	w0 := uint8(r.n(4)) << 4
	if r.n(3) == 0 {
		w0 |= uint8(r.v8()) & 0xCF
	}
	record(cplCall{kind: 'P', args: []int64{int64(w0)}, pc: em.PC()})
	em.AssumeSEP(asm.Flags(w0))
	if r.n(4) == 0 {
		c := uint8(r.v8())
		record(cplCall{kind: 'R', args: []int64{int64(c)}, pc: em.PC()})
		em.AssumeREP(asm.Flags(c))
	}
	p.m0, p.x0 = 1, 1
	if em.IsM16bit() {
		p.m0 = 0
	}
	if em.IsX16bit() {
		p.x0 = 0
	}
	p.base = em.PC()
	pl.start(p.base, p.m0, p.x0)
	labels := 0
	fwd := 1000
	var fwdUsed []int64
	var condIdx []int
	for _, i := range straightIdx {
		if ms[i].cond != "" {
			condIdx = append(condIdx, i)
		}
	}
	for p.nIns < nwant {
		k := r.n(100)
		switch {
		case k < 22: // REP / SEP with a mask that often touches the width bits
			mask := uint8(r.v8())
			switch r.n(4) {
			case 0:
				mask = 0x30
			case 1:
				mask = 0x20
			case 2:
				mask = 0x10
			}
			name := "REP"
			if r.n(2) == 0 {
				name = "SEP"
			}
			var m *cplMethod
			for i := range ms {
				if ms[i].name == name {
					m = &ms[i]
				}
			}
			if m == nil {
				continue
			}
			c := cplCall{kind: 'I', name: name, args: []int64{int64(mask)}, pc: em.PC(), isIns: true}
			c.refused, _ = cplCallMethod(em, m, c.args)
			record(c)
			if !c.refused {
				p.nIns++
				p.starts = append(p.starts, c.pc)
				pl.step(em.Bytes())
			}
		case k < 30: // a truthful Assume call: it does not change the tracked M / X
			cur := uint8(em.Flags())
			mask := uint8(r.v8())
			if r.n(2) == 0 {
				mask = (mask & 0xCF) | (^cur & 0x30) // REP of bits that are already clear
				record(cplCall{kind: 'R', args: []int64{int64(mask)}, pc: em.PC()})
				em.AssumeREP(asm.Flags(mask))
			} else {
				mask = (mask & 0xCF) | (cur & 0x30) // SEP of bits that are already set
				record(cplCall{kind: 'P', args: []int64{int64(mask)}, pc: em.PC()})
				em.AssumeSEP(asm.Flags(mask))
			}
		case k < 33:
			record(cplCall{kind: 'C', pc: em.PC()})
			em.Comment("c")
		case k < 36:
			labels++
			record(cplCall{kind: 'L', args: []int64{int64(labels)}, pc: em.PC()})
			em.Label(fmt.Sprintf("l%d", labels))
		default:
			m := &ms[straightIdx[r.n(len(straightIdx))]]
			if m.name == "REP" || m.name == "SEP" {
				continue
			}
			if m.cond != "" {
				// a conditional branch: only one that falls through in the pilot's current state
				if !pl.alive {
					continue
				}
				var ok []int
				for _, i := range condIdx {
					if pl.notTaken(ms[i].cond) {
						ok = append(ok, i)
					}
				}
				if len(ok) == 0 {
					continue
				}
				m = &ms[ok[r.n(len(ok))]]
				c := cplCall{kind: 'I', name: m.name, pc: em.PC(), isIns: true}
				if m.hasLabel {
					c.kind = 'B'
					lid := int64(0)
					if labels > 0 && r.n(2) == 0 {
						lid = int64(1 + r.n(labels)) // backward reference
					} else if len(fwdUsed) > 0 && r.n(3) == 0 {
						lid = fwdUsed[r.n(len(fwdUsed))]
					} else {
						lid = int64(fwd)
						fwd++
						fwdUsed = append(fwdUsed, lid)
					}
					c.args = []int64{lid}
				} else {
					c.args = cplRandArgs(r, m)
				}
				c.refused, _ = cplCallMethod(em, m, c.args)
				record(c)
				if !c.refused {
					p.nIns++
					p.nBranch++
					p.starts = append(p.starts, c.pc)
					pl.step(em.Bytes())
				}
				continue
			}
			if m.expectRefused(em.IsM16bit(), em.IsX16bit()) && r.n(100) < 85 {
				continue // mostly pick calls the assembler accepts; sometimes a wrong-width one (must be refused)
			}
			if m.move && (p.nMove >= 2 || r.n(3) != 0) {
				continue // a block move can take 65536 steps: at most two per program
			}
			c := cplCall{kind: 'I', name: m.name, args: cplRandArgs(r, m), pc: em.PC(), isIns: true}
			c.refused, _ = cplCallMethod(em, m, c.args)
			record(c)
			if !c.refused {
				p.nIns++
				p.starts = append(p.starts, c.pc)
				if m.move {
					p.nMove++
					for len(p.isMove) < len(p.starts)-1 {
						p.isMove = append(p.isMove, false)
					}
					p.isMove = append(p.isMove, true)
					pl.stepMove(em.Bytes(), c.pc)
				} else {
					pl.step(em.Bytes())
				}
			}
		}
	}
	// most forward references get their label after the last instruction (the others stay unresolved)
	for _, lid := range fwdUsed {
		if r.n(4) != 0 {
			record(cplCall{kind: 'L', args: []int64{lid}, pc: em.PC()})
			em.Label(cplLabelName(lid))
		}
	}
	for len(p.isMove) < len(p.starts) {
		p.isMove = append(p.isMove, false)
	}
	p.flags = uint8(em.Flags())
	p.bytes = append([]byte(nil), em.Bytes()...)
	p.finalPC = em.PC()
	// Finalize patches the label operands it can resolve (an error -- unresolved label, branch too far -- leaves the rest)
	func() {
		defer func() {
			if e := recover(); e != nil {
				p.finErr = fmt.Sprint(e)
			}
		}()
		if err := em.Finalize(); err != nil {
			p.finErr = err.Error()
		}
	}()
	p.patched = append([]byte(nil), em.Bytes()...)
	return p
}

func (p *cplProg) line() string {
	cs := make([]string, len(p.calls))
	for i := range p.calls {
		cs[i] = p.calls[i].String()
	}
	hx := make([]string, len(p.bytes))
	for i, b := range p.bytes {
		hx[i] = fmt.Sprint(b)
	}
	// positions where Finalize changed a byte (they must all be label operands), as pos:value
	var df []string
	for i := range p.patched {
		if i < len(p.bytes) && p.patched[i] != p.bytes[i] {
			df = append(df, fmt.Sprintf("%d:%d", i, p.patched[i]))
		}
	}
	return fmt.Sprintf("CASE %d cap=%d flags=%d pc=%d calls=%s bytes=%s patched=%s", p.id, p.capLen, p.flags, p.finalPC, strings.Join(cs, ";"), strings.Join(hx, ","), strings.Join(df, ","))
}

type cplRegs struct {
	ra, rx, ry, sp, rd uint16
	dbr                byte
	c, z, i, d, v, n   byte
}

var moveSteps int

type cplOutcome struct {
	fail    string
	selfMod bool
}

// cplCheckRun: the property on one interpreter.  step() executes one instruction, pc() / mx() observe the CPU,
// mem is the fetch-recording flat memory.
func cplCheckRun(p *cplProg, mem *cpuMem, step func() (panicked bool, msg string), pc func() uint32, mx func() (byte, byte)) cplOutcome {
	lo, hi := p.base, p.base+uint32(len(p.bytes))
	for i := 0; i < p.nIns; i++ {
		at := pc()
		if at != p.starts[i] {
			return cplOutcome{fail: fmt.Sprintf("instruction %d: CPU is about to fetch at %06x, the assembler reported the instruction start %06x", i, at, p.starts[i])}
		}
		// a block move is executed again and again from its own start (at most 65536 times); anything else once
		for rep := 0; ; rep++ {
			mem.trace = mem.trace[:0]
			if pan, msg := step(); pan {
				return cplOutcome{fail: fmt.Sprintf("instruction %d at %06x: Step panicked: %s", i, at, msg)}
			}
			if len(mem.trace) == 0 || mem.trace[0].w || mem.trace[0].a != at {
				return cplOutcome{fail: fmt.Sprintf("instruction %d: first bus access of the step is not the opcode fetch at %06x", i, at)}
			}
			for _, ev := range mem.trace {
				if ev.kind == 0 && ev.w && ev.a >= lo && ev.a < hi {
					return cplOutcome{selfMod: true} // the program overwrote itself: outside the property's hypothesis
				}
			}
			if !p.isMove[i] || pc() != at {
				break
			}
			if rep >= 0x10000 {
				return cplOutcome{fail: fmt.Sprintf("instruction %d at %06x: the block move is still repeating itself after 65536 steps", i, at)}
			}
			moveSteps++
		}
	}
	if at := pc(); p.finalPC&0xFFFF != 0 && at != p.finalPC {
		return cplOutcome{fail: fmt.Sprintf("after the last instruction the CPU is at %06x, the assembler at %06x", at, p.finalPC)}
	}
	m, x := mx()
	wm, wx := byte(0), byte(0)
	if p.flags&0x20 != 0 {
		wm = 1
	}
	if p.flags&0x10 != 0 {
		wx = 1
	}
	if m != wm || x != wx {
		return cplOutcome{fail: fmt.Sprintf("after the last instruction CPU (M,X)=(%d,%d), the assembler tracks (not IsM16bit, not IsX16bit)=(%d,%d)", m, x, wm, wx)}
	}
	return cplOutcome{}
}

func cplLoad(mem *cpuMem, p *cplProg, code []byte, seed uint32) {
	mem.seed = seed
	mem.ov = map[uint32]byte{}
	for i, b := range code {
		mem.ov[p.base+uint32(i)] = b
	}
	mem.trace = nil
}

func cplCmd(args []string) int {
	fs := flag.NewFlagSet("couple", flag.ExitOnError)
	seed := fs.Uint64("seed", 1, "PRNG seed")
	nprog := fs.Int("progs", 200, "number of programs")
	maxlen := fs.Int("maxlen", 40, "maximum number of instructions")
	only := fs.Int("only", -1, "run only this program id (replay)")
	out := fs.String("out", "", "file for the CASE lines (tie)")
	verbose := fs.Bool("v", false, "print the failing program")
	_ = fs.Parse(args)
	ms := cplMethods()
	var straightIdx []int
	var excluded []string
	for i := range ms {
		if ms[i].straight {
			straightIdx = append(straightIdx, i)
		} else {
			excluded = append(excluded, ms[i].name)
		}
	}
	stats := map[string]int{}
	fails := 0
	var w *bufio.Writer
	if *out != "" {
		f, err := os.Create(*out)
		if err != nil {
			fmt.Println("cannot create", *out, err)
			return 2
		}
		defer f.Close()
		w = bufio.NewWriter(f)
		defer w.Flush()
	}
	// --- refusal matrix: every instruction method under every tracked width state
	for i := range ms {
		m := &ms[i]
		if m.hasLabel {
			continue
		}
		for st := 0; st < 4; st++ {
			em := asm.NewEmitter(make([]byte, 8), false)
			em.AssumeSEP(asm.Flags(st << 4))
			r := &cpuRng{s: *seed*7919 + uint64(i*4+st)}
			refused, msg := cplCallMethod(em, m, cplRandArgs(r, m))
			want := m.expectRefused(em.IsM16bit(), em.IsX16bit())
			stats["refusal_cases"]++
			if want {
				stats["refusal_expected"]++
			}
			if refused != want {
				fails++
				fmt.Printf("FAIL C07 refusal method=%s state=%#02x refused=%v expected=%v (%s)\n", m.name, st<<4, refused, want, msg)
			}
			if refused && (em.Len() != 0 || em.PC() != 0) {
				fails++
				fmt.Printf("FAIL C07 refusal method=%s state=%#02x refused but emitted %d bytes\n", m.name, st<<4, em.Len())
			}
		}
	}
	// --- programs
	r65 := newRun65()
	ralt := newRunAlt()
	// the value of "no interrupt pending" is what a Step leaves behind
	cplLoad(r65.mem, &cplProg{}, []byte{0xEA}, 1)
	r65.cpu.Step()
	none65 := r65.cpu.Interrupt
	cplLoad(ralt.mem, &cplProg{}, []byte{0xEA}, 1)
	ralt.cpu.Step()
	noneAlt := ralt.cpu.Interrupt
	methodHits := map[string]int{}
	pilot := &cplPilot{r: newRun65(), ra: newRunAlt(), none: none65, noneAlt: noneAlt}
	for id := 0; id < *nprog; id++ {
		r := &cpuRng{s: *seed*1000003 + uint64(id)*7919 + 17}
		// the CPU's initial registers and the memory content are drawn first: the pilot needs them while assembling
		regs := cplRegs{ra: uint16(r.v16()), rx: uint16(r.v16()), ry: uint16(r.v16()), sp: uint16(r.v16()), rd: uint16(r.v16()), dbr: byte(r.v8()),
			c: byte(r.n(2)), z: byte(r.n(2)), i: byte(r.n(2)), d: 0, v: byte(r.n(2)), n: byte(r.n(2))}
		if r.n(3) > 0 {
			regs.rd &= 0xFF00 // often a page-aligned direct page
		}
		mseed := uint32(r.next())
		usePatched := r.n(2) == 0
		pilot.regs, pilot.mseed = regs, mseed
		r1 := *r
		p := cplGen(r, id, ms, straightIdx, *maxlen, -1, pilot)
		if id%8 == 5 {
			// same draws, base chosen so that the last byte of the program is the last byte of the bank
			// (the pilots' flags may depend on the base, hence the branches chosen and the length: then keep the first program)
			r2 := r1
			p2 := cplGen(&r2, id, ms, straightIdx, *maxlen, len(p.bytes), pilot)
			if len(p2.bytes) == len(p.bytes) {
				p = p2
				*r = r2
			}
		}
		if (p.base&0xFFFF)+uint32(len(p.bytes)) > 0x10000 {
			stats["crosses_bank_end_skipped"]++ // outside the property's hypothesis (cannot happen by construction)
			continue
		}
		if *only >= 0 && id != *only {
			continue
		}
		if w != nil {
			fmt.Fprintln(w, p.line())
		}
		stats["programs"]++
		stats["instructions"] += p.nIns
		for i := range p.calls {
			c := &p.calls[i]
			if c.isIns {
				if c.refused {
					stats["refused_in_program"]++
				} else {
					methodHits[c.name]++
				}
			}
			switch c.name {
			case "REP", "SEP":
				stats["rep_sep"]++
			}
		}
		stats[fmt.Sprintf("init_width_%d%d", p.m0, p.x0)]++
		if p.finalPC&0xFFFF == 0 {
			stats["ends_at_bank_end"]++
		}
		stats["block_moves"] += p.nMove
		stats["branches_not_taken"] += p.nBranch
		if p.nBranch > 0 {
			stats["programs_with_branches"]++
		}
		code := p.bytes
		if usePatched {
			code = p.patched
			stats["runs_on_finalized_bytes"]++
			for i := range p.patched {
				if p.patched[i] != p.bytes[i] {
					stats["label_operands_patched"]++
				}
			}
		}
		// cpu65c816
		{
			cplLoad(r65.mem, p, code, mseed)
			c := r65.cpu
			cplSet65(c, p.base, p.m0, p.x0, regs, none65)
			o := cplCheckRun(p, r65.mem, func() (pan bool, msg string) {
				defer func() {
					if e := recover(); e != nil {
						pan, msg = true, fmt.Sprint(e)
					}
				}()
				c.Step()
				return
			}, func() uint32 { return uint32(c.RK)<<16 | uint32(c.PC) }, func() (byte, byte) { return c.M, c.X })
			if o.selfMod {
				stats["self_modifying_skipped"]++
			} else if o.fail != "" {
				fails++
				fmt.Printf("FAIL C07 cpu=cpu65c816 seed=%d prog=%d %s\n", *seed, id, o.fail)
				if *verbose || fails <= 3 {
					fmt.Println("  " + p.line())
				}
			} else {
				stats["runs_ok"]++
			}
		}
		// cpualt
		{
			cplLoad(ralt.mem, p, code, mseed)
			c := ralt.cpu
			cplSetAlt(c, p.base, p.m0, p.x0, regs, noneAlt)
			o := cplCheckRun(p, ralt.mem, func() (pan bool, msg string) {
				defer func() {
					if e := recover(); e != nil {
						pan, msg = true, fmt.Sprint(e)
					}
				}()
				c.Step()
				return
			}, func() uint32 { return uint32(c.RK)<<16 | uint32(c.PC) }, func() (byte, byte) { return c.M, c.X })
			if o.selfMod {
				stats["self_modifying_skipped"]++
			} else if o.fail != "" {
				fails++
				fmt.Printf("FAIL C07 cpu=cpualt seed=%d prog=%d %s\n", *seed, id, o.fail)
				if *verbose || fails <= 3 {
					fmt.Println("  " + p.line())
				}
			} else {
				stats["runs_ok"]++
			}
		}
	}
	stats["block_move_repetitions"] = moveSteps
	stats["methods_straight"] = len(straightIdx)
	stats["methods_excluded"] = len(excluded)
	stats["methods_hit"] = len(methodHits)
	keys := make([]string, 0, len(stats))
	for k := range stats {
		keys = append(keys, k)
	}
	sort.Strings(keys)
	for _, k := range keys {
		fmt.Printf("STAT %s %d\n", k, stats[k])
	}
	fmt.Printf("EXCLUDED %s\n", strings.Join(excluded, ","))
	var unhit []string
	for _, i := range straightIdx {
		if methodHits[ms[i].name] == 0 {
			unhit = append(unhit, ms[i].name)
		}
	}
	fmt.Printf("UNHIT %s\n", strings.Join(unhit, ","))
	if fails > 0 {
		return 1
	}
	return 0
}

func init() { commands["couple"] = cplCmd }
