package main

// emittool: drives the REAL asm.Emitter for the emitter properties (C19, C16; the correspondence
// cases also serve C06 / C15).
//
//	emitcases <seed> <count> <tier> [corpus-dir]   correspondence cases (JSON lines) for Model/Emitter.v
//	emitcheck <c19|c16> <seed> <count> <tier> [corpus-dir]   falsifiers stated directly on the real code
//	emitreplay <c19|c16|case> <file.json>          re-run one recorded input
//
// Instruction methods are found by reflection over *asm.Emitter (a newly added method cannot stay
// outside the generator silently) and classified per call by probing a SEPARATE instance of the real
// code: which emit routine it reaches (number of bytes, label parameter), the bytes it passes, its
// width guard and its tracker update.  Everything is generated from one PRNG seeded by the seed argument.

import (
	"bufio"
	"encoding/json"
	"fmt"
	"os"
	"path/filepath"
	"reflect"
	"sort"
	"strconv"
	"strings"

	"github.com/alttpo/snes/asm"
)

// ---------------------------------------------------------------- PRNG

type emRng struct{ s uint64 }

func (r *emRng) next() uint64 {
	r.s += 0x9E3779B97F4A7C15
	z := r.s
	z = (z ^ (z >> 30)) * 0xBF58476D1CE4E5B9
	z = (z ^ (z >> 27)) * 0x94D049BB133111EB
	return z ^ (z >> 31)
}
func (r *emRng) n(k int) int {
	if k <= 0 {
		return 0
	}
	return int(r.next() % uint64(k))
}
func (r *emRng) p(pct int) bool { return r.n(100) < pct }
func (r *emRng) pick(vals ...int64) int64 {
	return vals[r.n(len(vals))]
}

// ---------------------------------------------------------------- scripts

const emNL = 6 // label names L0..L5

// label names: most are short; two are wider than the 12-column operand field of the text listing (13 and 41
// characters), so that the rendering helpers are exercised with names that do not fit their padding
func emName(i int64) string {
	switch i {
	case 4:
		return "L4_thirteen_c"
	case 5:
		return "L5_a_label_name_much_wider_than_the_field"
	}
	return "L" + strconv.FormatInt(i, 10)
}

// comment text of comment id v: every fifth comment is longer than the 120-byte line buffer of the listing writers
func emComment(v int64) string {
	s := "c" + strconv.FormatInt(v, 10)
	if v%5 == 0 {
		s += strings.Repeat("_", 150)
	}
	return s
}

func emCommentID(t string) (int64, error) {
	return strconv.ParseInt(strings.TrimRight(t[1:], "_"), 10, 64)
}

type emStep struct {
	K    string  `json:"k"` // call setbase label bytes comment arep asep clone append finalize
	M    string  `json:"m,omitempty"`
	A    []int64 `json:"a,omitempty"` // arguments of a call (label index for a string parameter)
	V    int64   `json:"v,omitempty"` // setbase address / flag mask / label index / comment id
	D    []int   `json:"d,omitempty"` // data bytes
	Nil  bool    `json:"nil,omitempty"`
	Cap  int     `json:"cap,omitempty"`
	Fill int     `json:"fill,omitempty"`
}

type emScript struct {
	Tag   string   `json:"tag"`
	Gen   bool     `json:"gen"`
	Nil   bool     `json:"nil"`
	Cap   int      `json:"cap"`
	Fill  int      `json:"fill"`
	Steps []emStep `json:"steps"`
}

func emTarget(isNil bool, cap, fill int) []byte {
	if isNil {
		return nil
	}
	b := make([]byte, cap)
	for i := range b {
		b[i] = byte(fill + 7*i)
	}
	return b[:cap:cap]
}

// emWindow is a target that is a window of a larger array (len < cap), the usual way to emit into a ROM/SRAM
// region: the emitter's capacity is the LENGTH of the slice it is given.  Used by the falsifiers (the tie keeps
// len = cap because Go lets the listing writers re-slice a window up to its capacity, which the model does not know).
func emWindow(isNil bool, cap, fill int) []byte {
	if isNil {
		return nil
	}
	b := make([]byte, cap+6)
	for i := range b {
		b[i] = byte(fill + 7*i)
	}
	return b[:cap]
}

// ---------------------------------------------------------------- method census and classification

var emNonIns = map[string]bool{
	"Clone": true, "Append": true, "WriteTextTo": true, "WriteHexTo": true, "Finalize": true, "Label": true,
	"GetLabel": true, "Cap": true, "Len": true, "Bytes": true, "PC": true, "SetBase": true, "GetBase": true,
	"Comment": true, "EmitBytes": true, "Flags": true, "IsX16bit": true, "IsM16bit": true,
	"AssumeREP": true, "AssumeSEP": true,
}

type emMeth struct {
	name     string
	ptypes   []reflect.Type
	hasLabel bool
}

type emOpInfo struct {
	Kind  string `json:"kind"` // E1 E2 E2L E3 E3L E4
	Bytes []int  `json:"bytes"`
	Label int64  `json:"label"`
	Track string `json:"track"` // none rep sep
	C     int    `json:"c"`
	Guard string `json:"guard"` // none m8 m16 x8 x16
}

var emMethods []emMeth
var emMethByName = map[string]*emMeth{}
var emUnsupported []string

func emCensus() {
	if emMethods != nil {
		return
	}
	t := reflect.TypeOf(asm.NewEmitter(nil, false))
	for i := 0; i < t.NumMethod(); i++ {
		m := t.Method(i)
		if emNonIns[m.Name] {
			continue
		}
		mm := emMeth{name: m.Name}
		ok := m.Type.NumOut() == 0
		for j := 1; j < m.Type.NumIn(); j++ {
			pt := m.Type.In(j)
			switch pt.Kind() {
			case reflect.Uint8, reflect.Uint16, reflect.Uint32, reflect.Int8:
			case reflect.String:
				mm.hasLabel = true
			default:
				ok = false
			}
			mm.ptypes = append(mm.ptypes, pt)
		}
		if !ok {
			emUnsupported = append(emUnsupported, m.Name)
			continue
		}
		emMethods = append(emMethods, mm)
	}
	for i := range emMethods {
		emMethByName[emMethods[i].name] = &emMethods[i]
	}
}

func emArgs(m *emMeth, a []int64) []reflect.Value {
	vs := make([]reflect.Value, len(m.ptypes))
	for i, pt := range m.ptypes {
		v := reflect.New(pt).Elem()
		var x int64
		if i < len(a) {
			x = a[i]
		}
		switch pt.Kind() {
		case reflect.Uint8:
			v.SetUint(uint64(x) & 0xFF)
		case reflect.Uint16:
			v.SetUint(uint64(x) & 0xFFFF)
		case reflect.Uint32:
			v.SetUint(uint64(x) & 0xFFFFFFFF)
		case reflect.Int8:
			v.SetInt(int64(int8(x)))
		case reflect.String:
			v.SetString(emName(x))
		}
		vs[i] = v
	}
	return vs
}

// protect runs f and reports whether it panicked
func emProtect(f func()) (panicked bool) {
	defer func() {
		if r := recover(); r != nil {
			panicked = true
		}
	}()
	f()
	return false
}

func emCall(a *asm.Emitter, m *emMeth, args []int64) bool {
	return emProtect(func() { reflect.ValueOf(a).MethodByName(m.name).Call(emArgs(m, args)) })
}

// emClassify probes separate instances of the real emitter to describe the call as an OIns of the model.
func emClassify(m *emMeth, args []int64) (emOpInfo, error) {
	info := emOpInfo{Track: "none", Guard: "none"}
	var pan [4]bool
	var bytes []byte
	for c := 0; c < 4; c++ {
		p := asm.NewEmitter(make([]byte, 16), false)
		f := 0
		if c&1 != 0 {
			f |= 0x20
		}
		if c&2 != 0 {
			f |= 0x10
		}
		p.AssumeSEP(asm.Flags(f))
		pan[c] = emCall(p, m, args)
		if !pan[c] && bytes == nil {
			bytes = append([]byte{}, p.Bytes()...)
			if int(p.PC()) != len(bytes) {
				return info, fmt.Errorf("%s: PC advanced by %d but %d bytes written", m.name, p.PC(), len(bytes))
			}
		}
	}
	switch pan {
	case [4]bool{false, false, false, false}:
	case [4]bool{true, false, true, false}: // panics when m flag clear (16-bit)
		info.Guard = "m8"
	case [4]bool{false, true, false, true}:
		info.Guard = "m16"
	case [4]bool{true, true, false, false}: // panics when x flag clear (16-bit)
		info.Guard = "x8"
	case [4]bool{false, false, true, true}:
		info.Guard = "x16"
	default:
		return info, fmt.Errorf("%s: unrecognised guard pattern %v", m.name, pan)
	}
	// tracker update
	p1 := asm.NewEmitter(make([]byte, 16), false)
	p1.AssumeSEP(0xFF)
	emCall(p1, m, args)
	p0 := asm.NewEmitter(make([]byte, 16), false)
	emCall(p0, m, args)
	a1, a0 := int(p1.Flags()), int(p0.Flags())
	switch {
	case a1 == 0xFF && a0 == 0:
	case a0 == 0 && a1 != 0xFF:
		info.Track, info.C = "rep", 0xFF^a1
	case a1 == 0xFF && a0 != 0:
		info.Track, info.C = "sep", a0
	default:
		return info, fmt.Errorf("%s: unrecognised tracker effect %02x/%02x", m.name, a0, a1)
	}
	for _, b := range bytes {
		info.Bytes = append(info.Bytes, int(b))
	}
	n := len(bytes)
	switch {
	case n == 1 && !m.hasLabel:
		info.Kind = "E1"
	case n == 2 && !m.hasLabel:
		info.Kind = "E2"
	case n == 2 && m.hasLabel:
		info.Kind = "E2L"
	case n == 3 && !m.hasLabel:
		info.Kind = "E3"
	case n == 3 && m.hasLabel:
		info.Kind = "E3L"
	case n == 4 && !m.hasLabel:
		info.Kind = "E4"
	default:
		return info, fmt.Errorf("%s: %d bytes, label=%v: no emit routine of that shape", m.name, n, m.hasLabel)
	}
	if m.hasLabel {
		for i, pt := range m.ptypes {
			if pt.Kind() == reflect.String && i < len(args) {
				info.Label = args[i]
			}
		}
	}
	return info, nil
}

// method classes for the generator (classified once with sample arguments)
type emClasses struct {
	plain   map[string][]*emMeth // E1 E2 E3 E4
	guarded []*emMeth
	track   []*emMeth
	br      []*emMeth // E2L
	jmp     []*emMeth // E3L
	table   map[string]emOpInfo
}

var emCls *emClasses

func emBuildClasses() (*emClasses, error) {
	if emCls != nil {
		return emCls, nil
	}
	emCensus()
	c := &emClasses{plain: map[string][]*emMeth{}, table: map[string]emOpInfo{}}
	for i := range emMethods {
		m := &emMethods[i]
		args := make([]int64, len(m.ptypes))
		for j := range args {
			args[j] = 1
		}
		info, err := emClassify(m, args)
		if err != nil {
			return nil, err
		}
		c.table[m.name] = info
		switch {
		case info.Track != "none":
			c.track = append(c.track, m)
		case info.Guard != "none":
			c.guarded = append(c.guarded, m)
		case info.Kind == "E2L":
			c.br = append(c.br, m)
		case info.Kind == "E3L":
			c.jmp = append(c.jmp, m)
		default:
			c.plain[info.Kind] = append(c.plain[info.Kind], m)
		}
	}
	emCls = c
	return c, nil
}

// ---------------------------------------------------------------- observation

type emObs struct {
	Bytes  []int   `json:"bytes"`
	Len    int     `json:"len"`
	Cap    int     `json:"cap"`
	PC     int64   `json:"pc"`
	Flags  int     `json:"flags"`
	Base   int64   `json:"base"`
	M16    bool    `json:"m16"`
	X16    bool    `json:"x16"`
	Labels []int64 `json:"labels"` // -1 = undefined
}

func emObserve(a *asm.Emitter) emObs {
	o := emObs{Len: a.Len(), Cap: a.Cap(), PC: int64(a.PC()), Flags: int(a.Flags()), Base: int64(a.GetBase()),
		M16: a.IsM16bit(), X16: a.IsX16bit(), Bytes: []int{}}
	if emProtect(func() {
		for _, b := range a.Bytes() {
			o.Bytes = append(o.Bytes, int(b))
		}
	}) {
		o.Bytes = []int{-1} // Bytes() itself panicked
	}
	for i := int64(0); i < emNL; i++ {
		if v, ok := a.GetLabel(emName(i)); ok {
			o.Labels = append(o.Labels, int64(v))
		} else {
			o.Labels = append(o.Labels, -1)
		}
	}
	return o
}

func emObsEq(a, b emObs) bool { return reflect.DeepEqual(a, b) }

// the observables C16 lists (GetBase is not among them: a difference must show in listing or Finalize)
func emObsEqListed(a, b emObs) bool {
	a.Base, b.Base = 0, 0
	return reflect.DeepEqual(a, b)
}

// listing records
type emRL struct {
	K     string `json:"k"` // ins1 ins2 ins2l ins3 ins3l ins4 base db comment label
	Addr  int64  `json:"addr"`
	Bytes []int  `json:"bytes"`
	L     int64  `json:"l"`
	Warn  bool   `json:"warn"`
}
type emRender struct {
	Lines []emRL `json:"lines"`
	Panic bool   `json:"panic"`
	Bad   string `json:"bad,omitempty"` // a record the parser could not read
}

type emRecWriter struct{ recs []string }

func (w *emRecWriter) Write(p []byte) (int, error) {
	w.recs = append(w.recs, string(p))
	return len(p), nil
}

func emLabelIdx(s string) (int64, bool) {
	for i := int64(0); i < emNL; i++ {
		if s == emName(i) {
			return i, true
		}
	}
	return 0, false
}

func emInsKind(nbytes int, lab bool) (string, bool) {
	switch {
	case nbytes == 1 && !lab:
		return "ins1", true
	case nbytes == 2 && !lab:
		return "ins2", true
	case nbytes == 2 && lab:
		return "ins2l", true
	case nbytes == 3 && !lab:
		return "ins3", true
	case nbytes == 3 && lab:
		return "ins3l", true
	case nbytes == 4 && !lab:
		return "ins4", true
	}
	return "", false
}

func emHexBytes(toks []string, prefix, suffix string) ([]int, bool) {
	out := []int{}
	for _, t := range toks {
		if !strings.HasPrefix(t, prefix) || !strings.HasSuffix(t, suffix) {
			return nil, false
		}
		v, err := strconv.ParseUint(t[len(prefix):len(t)-len(suffix)], 16, 8)
		if err != nil {
			return nil, false
		}
		out = append(out, int(v))
	}
	return out, true
}

// one record of WriteTextTo -> projection
func emParseText(rec string) (emRL, bool) {
	r := emRL{Bytes: []int{}}
	if !strings.HasSuffix(rec, "\n") {
		return r, false
	}
	s := rec[:len(rec)-1]
	switch {
	case strings.HasPrefix(s, "base $"):
		v, err := strconv.ParseUint(s[6:], 16, 32)
		r.K, r.Addr = "base", int64(v)
		return r, err == nil
	case strings.HasPrefix(s, "    ; $") && strings.Contains(s, "\n    db "):
		i := strings.Index(s, "\n")
		v, err := strconv.ParseUint(s[7:i], 16, 32)
		if err != nil {
			return r, false
		}
		body := s[i+1+len("    db "):]
		var toks []string
		if body != "" {
			toks = strings.Split(body, ", ")
		}
		bs, ok := emHexBytes(toks, "$", "")
		r.K, r.Addr, r.Bytes = "db", int64(v), bs
		return r, ok
	case strings.HasPrefix(s, "    ; "):
		t := s[6:]
		if !strings.HasPrefix(t, "c") {
			return r, false
		}
		v, err := emCommentID(t)
		r.K, r.L = "comment", v
		return r, err == nil
	case strings.HasSuffix(s, ":") && !strings.HasPrefix(s, " ") && !strings.HasPrefix(s, "!"):
		l, ok := emLabelIdx(s[:len(s)-1])
		r.K, r.L = "label", l
		return r, ok
	}
	if len(s) < 4 {
		return r, false
	}
	switch s[:4] {
	case "!!  ":
		r.Warn = true
	case "    ":
	default:
		return r, false
	}
	body := s[4:]
	i := strings.Index(body, " ; $")
	if i < 0 {
		return r, false
	}
	left := strings.Fields(body[:i])
	parts := strings.Split(body[i+4:], "  ")
	if len(parts) < 2 {
		return r, false
	}
	v, err := strconv.ParseUint(parts[0], 16, 32)
	if err != nil {
		return r, false
	}
	r.Addr = int64(v)
	bs, ok := emHexBytes(strings.Split(parts[1], " "), "", "")
	if !ok {
		return r, false
	}
	r.Bytes = bs
	if r.Warn != (len(parts) >= 3) {
		return r, false
	}
	lab := false
	if len(left) == 2 {
		if l, ok := emLabelIdx(left[1]); ok {
			lab, r.L = true, l
		}
	}
	if r.Warn {
		want := "!! ERROR: undefined label '" + emName(r.L) + "'"
		if !lab || parts[2] != want {
			return r, false
		}
	}
	r.K, ok = emInsKind(len(bs), lab)
	return r, ok
}

// one record of WriteHexTo -> projection
func emParseHex(rec string) (emRL, bool) {
	r := emRL{Bytes: []int{}}
	if !strings.HasSuffix(rec, "\n") {
		return r, false
	}
	s := rec[:len(rec)-1]
	if strings.HasPrefix(s, "// base $") {
		v, err := strconv.ParseUint(s[9:], 16, 32)
		r.K, r.Addr = "base", int64(v)
		return r, err == nil
	}
	if strings.HasPrefix(s, "// ") {
		t := s[3:]
		if strings.HasSuffix(t, ":") {
			if l, ok := emLabelIdx(t[:len(t)-1]); ok {
				r.K, r.L = "label", l
				return r, true
			}
		}
		if strings.HasPrefix(t, "c") {
			v, err := emCommentID(t)
			r.K, r.L = "comment", v
			return r, err == nil
		}
		return r, false
	}
	i := strings.Index(s, " // ")
	if i < 0 { // data line
		var toks []string
		if s != "" {
			toks = strings.Split(s, " ")
		}
		bs, ok := emHexBytes(toks, "0x", ",")
		r.K, r.Bytes = "db", bs
		return r, ok
	}
	bs, ok := emHexBytes(strings.Fields(s[:i]), "0x", ",")
	if !ok {
		return r, false
	}
	r.Bytes = bs
	right := strings.Fields(s[i+4:])
	lab := false
	if len(right) == 2 {
		if l, ok := emLabelIdx(right[1]); ok {
			lab, r.L = true, l
		}
	}
	r.K, ok = emInsKind(len(bs), lab)
	return r, ok
}

func emRenderOf(a *asm.Emitter, hex bool) emRender {
	w := &emRecWriter{}
	out := emRender{Lines: []emRL{}}
	out.Panic = emProtect(func() {
		if hex {
			_ = a.WriteHexTo(w)
		} else {
			_ = a.WriteTextTo(w)
		}
	})
	for _, rec := range w.recs {
		var rl emRL
		var ok bool
		if hex {
			rl, ok = emParseHex(rec)
		} else {
			rl, ok = emParseText(rec)
		}
		if !ok {
			out.Bad = rec
			break
		}
		out.Lines = append(out.Lines, rl)
	}
	return out
}

func emRawListing(a *asm.Emitter, hex bool) string {
	w := &emRecWriter{}
	p := emProtect(func() {
		if hex {
			_ = a.WriteHexTo(w)
		} else {
			_ = a.WriteTextTo(w)
		}
	})
	s := strings.Join(w.recs, "")
	if p {
		s += "<PANIC>"
	}
	return s
}

type emFin struct {
	Cls  string `json:"cls"` // ok unresolved toofar panic other
	L    int64  `json:"l"`
	From int64  `json:"from"`
	To   int64  `json:"to"`
	Msg  string `json:"msg,omitempty"`
}

func emFinalize(a *asm.Emitter) emFin {
	var err error
	if emProtect(func() { err = a.Finalize() }) {
		return emFin{Cls: "panic"}
	}
	if err == nil {
		return emFin{Cls: "ok"}
	}
	msg := err.Error()
	if strings.HasPrefix(msg, "could not resolve label '") && strings.HasSuffix(msg, "'") {
		if l, ok := emLabelIdx(msg[len("could not resolve label '") : len(msg)-1]); ok {
			return emFin{Cls: "unresolved", L: l, Msg: msg}
		}
	}
	var from, to uint64
	var diff int
	if n, _ := fmt.Sscanf(msg, "branch from 0x%x to 0x%x too far for signed 8-bit; diff=%d", &from, &to, &diff); n == 3 {
		return emFin{Cls: "toofar", From: int64(from), To: int64(to), Msg: msg}
	}
	return emFin{Cls: "other", Msg: msg}
}

// ---------------------------------------------------------------- running a script on the real code

type emRec struct {
	Step   emStep    `json:"step"`
	Op     *emOpInfo `json:"op,omitempty"`
	Panic  bool      `json:"panic"`
	Top    emObs     `json:"top"`
	Second *emObs    `json:"second,omitempty"` // nil with Same=false: there is no second emitter
	Same   bool      `json:"same,omitempty"`   // second emitter observed equal to the previous record's
}

type emFinal struct {
	Hex1  emRender `json:"hex1"`
	Text1 emRender `json:"text1"`
	Fin   emFin    `json:"fin"`
	Bytes []int    `json:"bytes"`
	Hex2  emRender `json:"hex2"`
	Text2 emRender `json:"text2"`
}

type emCase struct {
	ID    int      `json:"id"`
	Tag   string   `json:"tag"`
	Gen   bool     `json:"gen"`
	Nil   bool     `json:"nil"`
	Cap   int      `json:"cap"`
	Fill  int      `json:"fill"`
	NL    int      `json:"nl"`
	Steps []emRec  `json:"steps"`
	Final emFinal  `json:"final"`
	Err   string   `json:"err,omitempty"`
	Feat  []string `json:"feat"`
}

// one step on one emitter; returns (executed, panicked, info, error)
func emDoFlat(a *asm.Emitter, st emStep) (bool, *emOpInfo, error) {
	switch st.K {
	case "call":
		m := emMethByName[st.M]
		if m == nil {
			return false, nil, fmt.Errorf("no method %s", st.M)
		}
		info, err := emClassify(m, st.A)
		if err != nil {
			return false, nil, err
		}
		return emCall(a, m, st.A), &info, nil
	case "setbase":
		return emProtect(func() { a.SetBase(uint32(st.V)) }), nil, nil
	case "label":
		return emProtect(func() { a.Label(emName(st.V)) }), nil, nil
	case "bytes":
		d := make([]byte, len(st.D))
		for i, v := range st.D {
			d[i] = byte(v)
		}
		return emProtect(func() { a.EmitBytes(d) }), nil, nil
	case "comment":
		return emProtect(func() { a.Comment(emComment(st.V)) }), nil, nil
	case "arep":
		return emProtect(func() { a.AssumeREP(asm.Flags(st.V)) }), nil, nil
	case "asep":
		return emProtect(func() { a.AssumeSEP(asm.Flags(st.V)) }), nil, nil
	}
	return false, nil, fmt.Errorf("unknown flat step %q", st.K)
}

func emRunScript(id int, sc emScript) emCase {
	emCensus()
	c := emCase{ID: id, Tag: sc.Tag, Gen: sc.Gen, Nil: sc.Nil, Cap: sc.Cap, Fill: sc.Fill, NL: emNL, Steps: []emRec{}}
	feat := map[string]bool{}
	stack := []*asm.Emitter{asm.NewEmitter(emTarget(sc.Nil, sc.Cap, sc.Fill), sc.Gen)}
	var prevSecond *emObs
	finalDone := false
	var hex1, text1 emRender
	for _, st := range sc.Steps {
		top := stack[len(stack)-1]
		rec := emRec{Step: st}
		shape := len(stack)
		switch st.K {
		case "clone":
			var cl *asm.Emitter
			rec.Panic = emProtect(func() { cl = top.Clone(emTarget(st.Nil, st.Cap, st.Fill)) })
			if cl != nil {
				stack = append(stack, cl)
			}
			feat["clone"] = true
		case "append":
			if len(stack) < 2 {
				continue
			}
			e := stack[len(stack)-1]
			stack = stack[:len(stack)-1]
			rec.Panic = emProtect(func() { stack[len(stack)-1].Append(e) })
			feat["append"] = true
			if rec.Panic {
				feat["append-refused"] = true
			}
		case "finalize":
			hex1, text1 = emRenderOf(top, true), emRenderOf(top, false)
			fin := emFinalize(top)
			if fin.Cls != "ok" {
				c.Final.Fin = fin
				finalDone = true
			}
			feat["finalize-mid"] = true
		default:
			p, info, err := emDoFlat(top, st)
			if err != nil {
				c.Err = err.Error()
				return c
			}
			rec.Panic, rec.Op = p, info
			feat[st.K] = true
			if info != nil {
				feat[info.Kind] = true
				if info.Guard != "none" {
					feat["guarded"] = true
					if p && top.Cap()-top.Len() >= len(info.Bytes) {
						feat["guard-refused"] = true
					}
				}
			}
			if p {
				feat["refused"] = true
			}
		}
		if finalDone {
			break
		}
		top = stack[len(stack)-1]
		rec.Top = emObserve(top)
		if len(stack) >= 2 {
			o := emObserve(stack[len(stack)-2])
			if shape == len(stack) && prevSecond != nil && emObsEq(*prevSecond, o) {
				rec.Same = true
			} else {
				rec.Second = &o
			}
			prevSecond = &o
		} else {
			prevSecond = nil
		}
		c.Steps = append(c.Steps, rec)
	}
	top := stack[len(stack)-1]
	if !finalDone {
		hex1, text1 = emRenderOf(top, true), emRenderOf(top, false)
		c.Final.Fin = emFinalize(top)
	}
	c.Final.Hex1, c.Final.Text1 = hex1, text1
	c.Final.Bytes = emObserve(top).Bytes
	c.Final.Hex2, c.Final.Text2 = emRenderOf(top, true), emRenderOf(top, false)
	for _, r := range []emRender{hex1, text1, c.Final.Hex2, c.Final.Text2} {
		if r.Bad != "" {
			c.Err = "unparsed listing record: " + strconv.Quote(r.Bad)
		}
		if r.Panic {
			feat["render-panic"] = true
		}
	}
	feat["fin-"+c.Final.Fin.Cls] = true
	if sc.Nil {
		feat["nil-target"] = true
	}
	if sc.Gen {
		feat["listing"] = true
	}
	for k := range feat {
		c.Feat = append(c.Feat, k)
	}
	sort.Strings(c.Feat)
	return c
}

// ---------------------------------------------------------------- generator

type emGen struct {
	r       *emRng
	cls     *emClasses
	defined map[int64]bool
	comment int64
}

func (g *emGen) arg(pt reflect.Type) int64 {
	r := g.r
	switch pt.Kind() {
	case reflect.Uint8:
		return r.pick(0, 1, 0x7F, 0x80, 0xFF, int64(r.n(256)), int64(r.n(256)))
	case reflect.Uint16:
		return r.pick(0, 1, 0xFF, 0x100, 0x7FFF, 0x8000, 0xFFFF, int64(r.n(65536)), int64(r.n(65536)))
	case reflect.Uint32:
		return r.pick(0, 0xFFFF, 0x10000, 0x7E0010, 0xFFFFFF, 0x1000000, 0xFFFFFFFF, int64(r.n(1<<24)), int64(r.n(1<<24)))
	case reflect.Int8:
		return r.pick(-128, -1, 0, 1, 127, int64(r.n(256))-128)
	case reflect.String:
		return int64(r.n(emNL))
	}
	return 0
}

func (g *emGen) call(m *emMeth) emStep {
	st := emStep{K: "call", M: m.name}
	for _, pt := range m.ptypes {
		st.A = append(st.A, g.arg(pt))
	}
	if m.ptypes == nil {
		st.A = []int64{}
	}
	return st
}

func (g *emGen) callFrom(ms []*emMeth) emStep { return g.call(ms[g.r.n(len(ms))]) }

func (g *emGen) data(n int) emStep {
	d := make([]int, n)
	for i := range d {
		d[i] = g.r.n(256)
	}
	return emStep{K: "bytes", D: d}
}

var emDataLens = []int{0, 1, 15, 16, 17, 32, 33, 40}

func (g *emGen) flagMask() int64 {
	return g.r.pick(0x20, 0x10, 0x30, 0x20, 0x10, 0x30, 0x00, 0xFF, 0x01, int64(g.r.n(256)))
}

func (g *emGen) labelDef() emStep {
	r := g.r
	var free []int64
	for i := int64(0); i < emNL; i++ {
		if !g.defined[i] {
			free = append(free, i)
		}
	}
	var l int64
	if len(free) > 0 && !r.p(10) {
		l = free[r.n(len(free))]
	} else {
		l = int64(r.n(emNL)) // possibly a duplicate
	}
	g.defined[l] = true
	return emStep{K: "label", V: l}
}

func (g *emGen) randomOp() emStep {
	r := g.r
	x := r.n(100)
	switch {
	case x < 11:
		return g.callFrom(g.cls.plain["E1"])
	case x < 20:
		return g.callFrom(g.cls.plain["E2"])
	case x < 29:
		return g.callFrom(g.cls.plain["E3"])
	case x < 36:
		return g.callFrom(g.cls.plain["E4"])
	case x < 46:
		return g.callFrom(g.cls.guarded)
	case x < 54:
		st := g.callFrom(g.cls.track)
		st.A = []int64{g.flagMask()}
		return st
	case x < 58:
		if r.p(50) {
			return emStep{K: "arep", V: g.flagMask()}
		}
		return emStep{K: "asep", V: g.flagMask()}
	case x < 70:
		return g.callFrom(g.cls.br)
	case x < 75:
		return g.callFrom(g.cls.jmp)
	case x < 85:
		return g.labelDef()
	case x < 94:
		if r.p(70) {
			return g.data(emDataLens[r.n(len(emDataLens))])
		}
		return g.data(2 + r.n(13))
	default:
		g.comment++
		return emStep{K: "comment", V: g.comment}
	}
}

func (g *emGen) freeLabel() int64 {
	for tries := 0; tries < 20; tries++ {
		l := int64(g.r.n(emNL))
		if !g.defined[l] {
			return l
		}
	}
	return int64(g.r.n(emNL))
}

// branch-distance fragments: the displacement is solved for, not hoped for
func (g *emGen) distance() []emStep {
	r := g.r
	l := g.freeLabel()
	br := g.cls.br[r.n(len(g.cls.br))]
	bst := emStep{K: "call", M: br.name, A: []int64{l}}
	var out []emStep
	pad := func(k int) {
		for k > 0 {
			c := k
			if c > 40 {
				c = 40
			}
			if r.p(30) && c >= 3 {
				c = 1 + r.n(3)
				switch c {
				case 1:
					out = append(out, g.callFrom(g.cls.plain["E1"]))
				case 2:
					out = append(out, g.callFrom(g.cls.plain["E2"]))
				case 3:
					out = append(out, g.callFrom(g.cls.plain["E3"]))
				}
			} else {
				out = append(out, g.data(c))
			}
			k -= c
		}
	}
	if r.p(50) { // forward: operand distance = k
		k := int(r.pick(127, 128, 127, 128, 0, 1, 126, 129))
		out = append(out, bst)
		pad(k)
		g.defined[l] = true
		out = append(out, emStep{K: "label", V: l})
	} else { // backward: distance = -(k+2)
		k := int(r.pick(126, 127, 126, 127, 0, 125, 128))
		g.defined[l] = true
		out = append(out, emStep{K: "label", V: l})
		pad(k)
		out = append(out, bst)
	}
	return out
}

var emBases = []int64{0x8000, 0x008000, 0x7E2000, 0x00FFF0, 0xC08000, 0, 0x1234}

// a flat history (no clone/append/finalize)
func (g *emGen) flat(tier string) (string, []emStep) {
	r := g.r
	g.defined = map[int64]bool{}
	var ops []emStep
	maxLen := 22
	if tier == "thorough" {
		maxLen = 60
	}
	nops := 2 + r.n(maxLen)
	scen := r.n(100)
	tag := "mixed"
	if r.p(65) {
		ops = append(ops, emStep{K: "setbase", V: emBases[r.n(len(emBases))]})
	}
	switch {
	case scen < 55:
		for i := 0; i < nops; i++ {
			ops = append(ops, g.randomOp())
		}
	case scen < 72:
		tag = "distance"
		for i := 0; i < r.n(4); i++ {
			ops = append(ops, g.randomOp())
		}
		ops = append(ops, g.distance()...)
		if r.p(40) {
			ops = append(ops, g.distance()...)
		}
		for i := 0; i < r.n(4); i++ {
			ops = append(ops, g.randomOp())
		}
	case scen < 82:
		tag = "data"
		for i := 0; i < 1+nops/3; i++ {
			if r.p(60) {
				ops = append(ops, g.data(emDataLens[r.n(len(emDataLens))]))
			} else {
				ops = append(ops, g.randomOp())
			}
		}
	case scen < 92:
		tag = "labels"
		for i := 0; i < nops; i++ {
			switch r.n(4) {
			case 0:
				ops = append(ops, g.labelDef())
			case 1:
				ops = append(ops, g.callFrom(g.cls.br))
			case 2:
				ops = append(ops, g.callFrom(g.cls.jmp))
			default:
				ops = append(ops, g.randomOp())
			}
		}
	default:
		tag = "odd-base" // outside the properties' premises; the model must still agree
		ops = nil
		if r.p(50) {
			ops = append(ops, emStep{K: "setbase", V: r.pick(0xFFFFFFF0, 0xFFFFFFFE, 0xFFFFFF, 0x1000000, 0xFFFE)})
		}
		for i := 0; i < nops; i++ {
			if r.p(12) {
				ops = append(ops, emStep{K: "setbase", V: r.pick(0x8000, 0x8002, 0x9000, 0x7FF0, 0, 0xFFFFFFFC)})
			} else {
				ops = append(ops, g.randomOp())
			}
		}
	}
	return tag, ops
}

// bytes emitted after each step when nothing is refused for capacity (measured on a large real buffer)
func emSizes(gen bool, ops []emStep) []int {
	emCensus()
	a := asm.NewEmitter(make([]byte, 1<<16), gen)
	out := make([]int, len(ops))
	for i, st := range ops {
		_, _, _ = emDoFlat(a, st)
		out[i] = a.Len()
	}
	return out
}

func emTotal(sz []int) int {
	if len(sz) == 0 {
		return 0
	}
	return sz[len(sz)-1]
}

func (g *emGen) capacity(sz []int) (bool, int) {
	r := g.r
	total := emTotal(sz)
	x := r.n(100)
	switch {
	case x < 12:
		return true, 0
	case x < 45:
		return false, total + r.n(8)
	case x < 55:
		return false, total
	case x < 70:
		c := total - 1 - r.n(3)
		if c < 0 {
			c = 0
		}
		return false, c
	case x < 88:
		if len(sz) == 0 {
			return false, 0
		}
		c := sz[r.n(len(sz))] - r.n(4) // 0-3 bytes short of the end of a randomly chosen item
		if c < 0 {
			c = 0
		}
		return false, c
	case x < 93:
		return false, 0
	default:
		return false, r.n(total + 1)
	}
}

// scripts derived from one flat history
func (g *emGen) scripts(tier string) []emScript {
	r := g.r
	tag, ops := g.flat(tier)
	gen := r.p(70)
	sz := emSizes(gen, ops)
	total := emTotal(sz)
	var out []emScript
	odd := tag == "odd-base"
	// (a) direct, with a capacity chosen around the item boundaries
	{
		isNil, c := g.capacity(sz)
		sc := emScript{Tag: tag, Gen: gen, Nil: isNil, Cap: c, Fill: r.n(256), Steps: append([]emStep{}, ops...)}
		if !odd && r.p(8) && len(ops) > 2 {
			k := 1 + r.n(len(ops)-1)
			st := append([]emStep{}, ops[:k]...)
			st = append(st, emStep{K: "finalize"})
			sc.Steps = append(st, ops[k:]...)
			sc.Tag += "+midfin"
		}
		out = append(out, sc)
	}
	// (b) clone / append at a random split point (also 0 = before SetBase, and len = empty tail)
	if r.p(60) {
		k := r.n(len(ops) + 1)
		j := k + r.n(len(ops)-k+1)
		head := 0
		if k > 0 {
			head = sz[k-1]
		}
		tail := 0
		if j > 0 {
			tail = sz[j-1] - head
		}
		cl := emStep{K: "clone", Cap: tail + r.n(4), Fill: r.n(256)}
		x := r.n(100)
		switch {
		case x < 8:
			cl.Nil, cl.Cap = true, 0
		case x < 20 && tail > 0:
			cl.Cap = r.n(tail)
		}
		sc := emScript{Tag: tag + "+clone", Gen: gen, Fill: r.n(256)}
		x = r.n(100)
		switch {
		case x < 6:
			sc.Nil = true
		case x < 70:
			sc.Cap = total + r.n(6)
		case x < 85: // head fits, Append does not
			sc.Cap = head + r.n(tail+1)
			if tail > 0 && r.p(50) {
				sc.Cap = head + tail - 1
			}
		default:
			_, sc.Cap = g.capacity(sz)
		}
		st := append([]emStep{}, ops[:k]...)
		st = append(st, cl)
		mid := ops[k:j]
		if len(mid) > 1 && r.p(10) { // nested clone
			q := r.n(len(mid))
			st = append(st, mid[:q]...)
			st = append(st, emStep{K: "clone", Cap: tail + 4, Fill: r.n(256)})
			st = append(st, mid[q:]...)
			st = append(st, emStep{K: "append"})
		} else {
			st = append(st, mid...)
		}
		if !r.p(7) { // sometimes the clone is left un-appended: the final observations are the clone's
			st = append(st, emStep{K: "append"})
			st = append(st, ops[j:]...)
		}
		sc.Steps = st
		out = append(out, sc)
	}
	// (c) the same history dry (nil target) -- C19's measuring mode
	if r.p(25) {
		out = append(out, emScript{Tag: tag + "+dry", Gen: gen, Nil: true, Steps: append([]emStep{}, ops...)})
	}
	return out
}

// histories exercised on every run before anything else: the witnesses of the defects known on the
// pinned tree (the first also tells which Append the tree implements)
func emBuiltins() []emScript {
	seq := func(n int) []int {
		d := make([]int, n)
		for i := range d {
			d[i] = i + 1
		}
		return d
	}
	return []emScript{
		{Tag: "builtin:append-base", Gen: true, Cap: 16, Fill: 3, Steps: []emStep{
			{K: "clone", Cap: 8, Fill: 9}, {K: "setbase", V: 0x8000}, {K: "call", M: "BRA", A: []int64{0}},
			{K: "label", V: 0}, {K: "append"}}},
		{Tag: "builtin:db-chunks-overread", Gen: true, Cap: 20, Fill: 5, Steps: []emStep{
			{K: "setbase", V: 0x8000}, {K: "bytes", D: seq(20)}}},
		{Tag: "builtin:db-chunks-repeat", Gen: true, Cap: 64, Fill: 5, Steps: []emStep{
			{K: "setbase", V: 0x8000}, {K: "bytes", D: seq(20)}, {K: "call", M: "NOP"}}},
		{Tag: "builtin:label-before-base", Gen: true, Cap: 8, Fill: 1, Steps: []emStep{
			{K: "setbase", V: 0x8000}, {K: "label", V: 0}, {K: "call", M: "NOP"}}},
	}
}

func emLoadCorpus(dir string) []emScript {
	out := emBuiltins()
	if dir == "" {
		return out
	}
	files, _ := filepath.Glob(filepath.Join(dir, "*", "*.json"))
	sort.Strings(files)
	for _, f := range files {
		b, err := os.ReadFile(f)
		if err != nil {
			continue
		}
		var sc emScript
		if json.Unmarshal(b, &sc) == nil && len(sc.Steps) > 0 {
			sc.Tag = "corpus:" + filepath.Base(filepath.Dir(f)) + "/" + filepath.Base(f)
			out = append(out, sc)
		}
	}
	return out
}

func emCasesCmd(args []string) int {
	if len(args) < 3 {
		fmt.Fprintln(os.Stderr, "usage: emitcases <seed> <count> <tier> [corpus-dir]")
		return 2
	}
	seed, _ := strconv.ParseUint(args[0], 10, 64)
	count, _ := strconv.Atoi(args[1])
	tier := args[2]
	cls, err := emBuildClasses()
	if err != nil {
		fmt.Println("ERROR " + err.Error())
		return 1
	}
	w := bufio.NewWriterSize(os.Stdout, 1<<20)
	defer w.Flush()
	enc := json.NewEncoder(w)
	id := 0
	emit := func(sc emScript) bool {
		c := emRunScript(id, sc)
		id++
		_ = enc.Encode(c)
		return c.Err == ""
	}
	cdir := ""
	if len(args) > 3 {
		cdir = args[3]
	}
	for _, sc := range emLoadCorpus(cdir) {
		emit(sc)
	}
	g := &emGen{r: &emRng{s: seed*0x9E3779B97F4A7C15 + 0x1234567}, cls: cls}
	for id < count {
		for _, sc := range g.scripts(tier) {
			emit(sc)
		}
	}
	// census: every instruction method found by reflection and its classification
	names := []string{}
	for _, m := range emMethods {
		i := cls.table[m.name]
		names = append(names, fmt.Sprintf("%s:%s:%s:%s", m.name, i.Kind, i.Guard, i.Track))
	}
	census, _ := json.Marshal(map[string]interface{}{"methods": names, "unsupported": emUnsupported})
	fmt.Fprintf(w, "CENSUS %s\n", census)
	return 0
}

// ---------------------------------------------------------------- falsifiers

type emFail struct {
	Clause string   `json:"clause"`
	Key    string   `json:"key"`
	Detail string   `json:"detail"`
	Script emScript `json:"script"`
	K      int      `json:"k"`
}

func emRunFlat(a *asm.Emitter, ops []emStep) {
	for _, st := range ops {
		_, _, _ = emDoFlat(a, st)
	}
}

// C19 on one history: (1) for the given capacity Len <= Cap after every call and a refused call leaves
// Bytes, Len, PC and every label as they were; (2) a nil-target emitter and an emitter with room for
// everything report the same PC, labels and tracked flags after every call.
func emC19(sc emScript) *emFail {
	fail := func(cl, key, d string) *emFail { return &emFail{Clause: cl, Key: key, Detail: d, Script: sc} }
	a := asm.NewEmitter(emWindow(sc.Nil, sc.Cap, sc.Fill), sc.Gen)
	for i, st := range sc.Steps {
		before := emObserve(a)
		p, info, err := emDoFlat(a, st)
		if err != nil {
			return nil
		}
		after := emObserve(a)
		// all-or-nothing: an accepted call has emitted exactly its bytes after the old ones; a call whose
		// bytes do not fit is refused
		var want []int
		switch {
		case info != nil:
			want = info.Bytes
		case st.K == "bytes":
			want = st.D
		}
		if !sc.Nil {
			if !p {
				exp := append(append([]int{}, before.Bytes...), want...)
				if !reflect.DeepEqual(exp, after.Bytes) || after.Len != len(exp) {
					return fail("C19.all_or_nothing", "partial-emission",
						fmt.Sprintf("step %d (%s %s) was accepted with %d of %d bytes free: bytes before %v, the call's bytes %v, bytes after %v (Len %d)",
							i, st.K, st.M, before.Cap-before.Len, before.Cap, before.Bytes, want, after.Bytes, after.Len))
				}
			} else if info != nil && info.Guard == "none" && before.Len+len(want) <= before.Cap {
				return fail("C19.all_or_nothing", "refused-although-it-fits",
					fmt.Sprintf("step %d (%s %s) panicked although its %d bytes fit (%d of %d used)", i, st.K, st.M, len(want), before.Len, before.Cap))
			}
		}
		if after.Len > after.Cap {
			return fail("C19.len_le_cap", "len-gt-cap", fmt.Sprintf("step %d (%s %s): Len %d > Cap %d", i, st.K, st.M, after.Len, after.Cap))
		}
		if p {
			if !reflect.DeepEqual(before.Bytes, after.Bytes) || before.Len != after.Len || before.PC != after.PC ||
				!reflect.DeepEqual(before.Labels, after.Labels) {
				return fail("C19.refused_frame", "refused-changes-state",
					fmt.Sprintf("step %d (%s %s) panicked and left bytes/len/pc/labels %v/%d/%#x/%v, before %v/%d/%#x/%v",
						i, st.K, st.M, after.Bytes, after.Len, after.PC, after.Labels, before.Bytes, before.Len, before.PC, before.Labels))
			}
		}
	}
	sz := emSizes(sc.Gen, sc.Steps)
	dry := asm.NewEmitter(nil, sc.Gen)
	big := asm.NewEmitter(emWindow(false, emTotal(sz), sc.Fill), sc.Gen)
	for i, st := range sc.Steps {
		p1, _, _ := emDoFlat(dry, st)
		p2, _, _ := emDoFlat(big, st)
		o1, o2 := emObserve(dry), emObserve(big)
		if o1.Len > o1.Cap || o2.Len > o2.Cap || len(o1.Bytes) != o1.Len || len(o2.Bytes) != o2.Len {
			return fail("C19.len_le_cap", "len-gt-cap", fmt.Sprintf("step %d (%s %s): nil target Len %d Cap %d Bytes %v; real target Len %d Cap %d",
				i, st.K, st.M, o1.Len, o1.Cap, o1.Bytes, o2.Len, o2.Cap))
		}
		if p1 != p2 || o1.PC != o2.PC || o1.Flags != o2.Flags || !reflect.DeepEqual(o1.Labels, o2.Labels) {
			return fail("C19.dry_run", "dry-run-differs",
				fmt.Sprintf("step %d (%s %s): nil target refused=%v pc=%#x flags=%02x labels=%v; real target (cap %d) refused=%v pc=%#x flags=%02x labels=%v",
					i, st.K, st.M, p1, o1.PC, o1.Flags, o1.Labels, emTotal(sz), p2, o2.PC, o2.Flags, o2.Labels))
		}
	}
	// (2b) the dry-run emitter measures through Clone + Append as well: a nil-target emitter whose tail went through
	// Clone(nil) and Append reports the same PC, flags and labels as the emitter with a real buffer that got every call
	obig := emObserve(big)
	for _, k := range []int{0, len(sc.Steps) / 2, len(sc.Steps) - 1} {
		if k < 0 || k > len(sc.Steps) {
			continue
		}
		d2 := asm.NewEmitter(nil, sc.Gen)
		emRunFlat(d2, sc.Steps[:k])
		c2 := d2.Clone(nil)
		emRunFlat(c2, sc.Steps[k:])
		if emProtect(func() { d2.Append(c2) }) {
			return fail("C19.dry_run", "dry-run-append-refused", fmt.Sprintf("split %d: Append of a nil-target clone into a nil-target emitter panicked", k))
		}
		o := emObserve(d2)
		if o.PC != obig.PC || o.Flags != obig.Flags || !reflect.DeepEqual(o.Labels, obig.Labels) {
			return fail("C19.dry_run", "dry-run-clone-differs",
				fmt.Sprintf("split %d: nil target with the tail through Clone(nil)+Append: pc=%#x flags=%02x labels=%v; real target with every call: pc=%#x flags=%02x labels=%v",
					k, o.PC, o.Flags, o.Labels, obig.PC, obig.Flags, obig.Labels))
		}
	}
	// (3) the block of a Clone is a block too: an Append that does not fit the remaining capacity is refused as a
	// whole and leaves bytes, Len, PC and every label of the receiving emitter as they were
	total := emTotal(sz)
	for _, k := range []int{0, len(sc.Steps) / 2, len(sc.Steps) - 1} {
		if k < 0 || k > len(sc.Steps) {
			continue
		}
		orig := asm.NewEmitter(emWindow(false, total, sc.Fill), sc.Gen)
		emRunFlat(orig, sc.Steps[:k])
		cl := orig.Clone(emWindow(false, total+4, sc.Fill+1))
		emRunFlat(cl, sc.Steps[k:])
		if cl.Len() == 0 {
			continue
		}
		small := asm.NewEmitter(emWindow(false, orig.Len()+cl.Len()-1, sc.Fill), sc.Gen)
		emRunFlat(small, sc.Steps[:k])
		if small.Len() != orig.Len() {
			continue
		}
		before := emObserve(small)
		if !emProtect(func() { small.Append(cl) }) {
			return fail("C19.all_or_nothing", "append-overflow-accepted",
				fmt.Sprintf("split %d: Append of a %d-byte clone into %d free bytes was accepted (Len %d Cap %d afterwards)", k, cl.Len(), before.Cap-before.Len, small.Len(), small.Cap()))
		}
		after := emObserve(small)
		if !reflect.DeepEqual(before.Bytes, after.Bytes) || before.Len != after.Len || before.PC != after.PC || !reflect.DeepEqual(before.Labels, after.Labels) {
			return fail("C19.refused_frame", "refused-append-changes-state",
				fmt.Sprintf("split %d: Append of a %d-byte clone into %d free bytes was refused and left bytes/len/pc/labels %v/%d/%#x/%v, before %v/%d/%#x/%v",
					k, cl.Len(), before.Cap-before.Len, after.Bytes, after.Len, after.PC, after.Labels, before.Bytes, before.Len, before.PC, before.Labels))
		}
	}
	return nil
}

type emFullObs struct {
	Obs  emObs
	Text string
	Hex  string
	Fin  emFin
	Post []int
}

func emFull(a *asm.Emitter) emFullObs {
	f := emFullObs{Obs: emObserve(a), Text: emRawListing(a, false), Hex: emRawListing(a, true)}
	f.Fin = emFinalize(a)
	f.Post = emObserve(a).Bytes
	return f
}

// C16 on one history and one split point k (sc.Cap = capacity of the direct / original emitter)
func emC16(sc emScript, k int) *emFail {
	fail := func(cl, key, d string) *emFail { return &emFail{Clause: cl, Key: key, Detail: d, Script: sc, K: k} }
	ops := sc.Steps
	if k > len(ops) {
		k = len(ops)
	}
	sz := emSizes(sc.Gen, ops)
	total := emTotal(sz)
	capa := sc.Cap
	if capa < total {
		capa = total
	}
	direct := asm.NewEmitter(emWindow(false, capa, sc.Fill), sc.Gen)
	emRunFlat(direct, ops)
	orig := asm.NewEmitter(emWindow(false, capa, sc.Fill), sc.Gen)
	emRunFlat(orig, ops[:k])
	snap := emObserve(orig)
	snapText := emRawListing(orig, false)
	cl := orig.Clone(emWindow(false, total+4, sc.Fill+1))
	for i, st := range ops[k:] {
		_, _, _ = emDoFlat(cl, st)
		if o := emObserve(orig); !emObsEq(o, snap) || emRawListing(orig, false) != snapText {
			return fail("C16.frame_clone", "clone-op-changes-original",
				fmt.Sprintf("split %d: step %d on the clone (%s %s) changed the original: %+v -> %+v", k, k+i, st.K, st.M, snap, o))
		}
	}
	// "until Append is called the original is unaffected by ANYTHING done to the clone": also in what only Finalize
	// shows (pending references).  A second original with a clone that receives the tail and is then abandoned must
	// finalize exactly like a twin that never had a clone.
	{
		twin := asm.NewEmitter(emWindow(false, capa, sc.Fill), sc.Gen)
		emRunFlat(twin, ops[:k])
		orig2 := asm.NewEmitter(emWindow(false, capa, sc.Fill), sc.Gen)
		emRunFlat(orig2, ops[:k])
		cl2 := orig2.Clone(emWindow(false, total+4, sc.Fill+1))
		emRunFlat(cl2, ops[k:])
		headDet := true // Finalize visits Go maps in random order: compare only when its outcome cannot depend on it
		emitted := false
		for _, st := range ops[:k] {
			switch st.K {
			case "call", "bytes":
				emitted = true
			case "setbase":
				if emitted {
					headDet = false
				}
			}
		}
		if headDet {
			ft, fo := emFull(twin), emFull(orig2)
			// which failing reference a failing Finalize names depends on Go's map iteration order: compare ok / error / panic only
			same := (ft.Fin.Cls == "ok") == (fo.Fin.Cls == "ok") && (ft.Fin.Cls == "panic") == (fo.Fin.Cls == "panic") &&
				emObsEq(ft.Obs, fo.Obs) && ft.Text == fo.Text && ft.Hex == fo.Hex
			if same && ft.Fin.Cls == "ok" && !reflect.DeepEqual(ft.Post, fo.Post) {
				same = false
			}
			if !same {
				return fail("C16.frame_clone", "abandoned-clone-changes-original",
					fmt.Sprintf("split %d: an original whose clone received the tail and was never appended finalizes %s %s (bytes %v); a twin without a clone finalizes %s %s (bytes %v)",
						k, fo.Fin.Cls, fo.Fin.Msg, fo.Post, ft.Fin.Cls, ft.Fin.Msg, ft.Post))
			}
		}
	}
	// refused Append: an original with room for the head only
	if cl.Len() > 0 {
		small := asm.NewEmitter(emWindow(false, snap.Len+cl.Len()-1, sc.Fill), sc.Gen)
		emRunFlat(small, ops[:k])
		if small.Len() == snap.Len {
			b, bt := emObserve(small), emRawListing(small, false)
			p := emProtect(func() { small.Append(cl) })
			if !p {
				return fail("C16.append_refused", "append-overflow-accepted", fmt.Sprintf("split %d: Append of %d bytes into %d free was not refused", k, cl.Len(), b.Cap-b.Len))
			}
			if o := emObserve(small); !emObsEq(o, b) || emRawListing(small, false) != bt {
				return fail("C16.append_refused", "refused-append-changes-original", fmt.Sprintf("split %d: refused Append changed the original: %+v -> %+v", k, b, o))
			}
		}
	}
	if emProtect(func() { orig.Append(cl) }) {
		return fail("C16.equiv", "append-refused", fmt.Sprintf("split %d: Append refused although everything fits", k))
	}
	d, s := emFull(direct), emFull(orig)
	// Finalize visits Go maps in random order; whether it succeeds, fails or panics is independent of the
	// order only while every reference indexes its own operand, i.e. when no SetBase follows an emission
	finDet := true
	emitted := false
	for _, st := range ops {
		switch st.K {
		case "call", "bytes":
			emitted = true
		case "setbase":
			if emitted {
				finDet = false
			}
		}
	}
	if !finDet {
		d.Fin, s.Fin, d.Post, s.Post = emFin{Cls: "ok"}, emFin{Cls: "ok"}, nil, nil
	}
	switch {
	case !emObsEqListed(d.Obs, s.Obs):
		return fail("C16.equiv", "state", fmt.Sprintf("split %d: direct %+v, clone+append %+v", k, d.Obs, s.Obs))
	case d.Text != s.Text:
		return fail("C16.equiv", "text-listing", fmt.Sprintf("split %d: text listing direct %q, clone+append %q", k, d.Text, s.Text))
	case d.Hex != s.Hex:
		return fail("C16.equiv", "hex-listing", fmt.Sprintf("split %d: hex listing direct %q, clone+append %q", k, d.Hex, s.Hex))
	case d.Fin.Cls == "ok" && (s.Fin.Cls != "ok" || !reflect.DeepEqual(d.Post, s.Post)):
		return fail("C16.equiv", "finalize", fmt.Sprintf("split %d: Finalize direct ok bytes %v; clone+append %s %s bytes %v", k, d.Post, s.Fin.Cls, s.Fin.Msg, s.Post))
	case (d.Fin.Cls == "panic") != (s.Fin.Cls == "panic") || (d.Fin.Cls == "ok") != (s.Fin.Cls == "ok"):
		return fail("C16.equiv", "finalize", fmt.Sprintf("split %d: Finalize direct %s %s; clone+append %s %s", k, d.Fin.Cls, d.Fin.Msg, s.Fin.Cls, s.Fin.Msg))
	}
	return nil
}

// greedy shrinking of a failing history
func emShrink(sc emScript, k int, fails func(emScript, int) *emFail) (emScript, int, *emFail) {
	best := fails(sc, k)
	if best == nil { // not reproducible
		return sc, k, nil
	}
	for changed := true; changed; {
		changed = false
		for i := 0; i < len(sc.Steps); i++ {
			t := sc
			t.Steps = append(append([]emStep{}, sc.Steps[:i]...), sc.Steps[i+1:]...)
			tk := k
			if i < k {
				tk = k - 1
			}
			if f := fails(t, tk); f != nil && f.Key == best.Key {
				sc, k, best, changed = t, tk, f, true
				break
			}
		}
	}
	return sc, k, best
}

func emFlatOnly(sc emScript) emScript {
	var st []emStep
	for _, s := range sc.Steps {
		switch s.K {
		case "clone", "append", "finalize":
		default:
			st = append(st, s)
		}
	}
	sc.Steps = st
	return sc
}

// a panic escaping from the falsifier itself (an observer of the real emitter blew up) is a finding too
func emGuarded(clause string, sc emScript, k int, f func() *emFail) (res *emFail) {
	defer func() {
		if r := recover(); r != nil {
			res = &emFail{Clause: clause, Key: "observer-panic", Detail: fmt.Sprintf("observing the emitter panicked: %v", r), Script: sc, K: k}
		}
	}()
	return f()
}

func emCheckCmd(args []string) int {
	if len(args) < 4 {
		fmt.Fprintln(os.Stderr, "usage: emitcheck <c19|c16> <seed> <count> <tier> [corpus-dir]")
		return 2
	}
	which := args[0]
	seed, _ := strconv.ParseUint(args[1], 10, 64)
	count, _ := strconv.Atoi(args[2])
	tier := args[3]
	cls, err := emBuildClasses()
	if err != nil {
		fmt.Println("ERROR " + err.Error())
		return 1
	}
	g := &emGen{r: &emRng{s: seed*0x9E3779B97F4A7C15 + 0x7654321}, cls: cls}
	seen := map[string]bool{}
	nh, ne := 0, 0
	report := func(f *emFail) {
		if f == nil || seen[f.Key] {
			return
		}
		seen[f.Key] = true
		b, _ := json.Marshal(f)
		fmt.Printf("FAIL %s\n", b)
	}
	one := func(sc emScript) {
		sc = emFlatOnly(sc)
		nh++
		switch which {
		case "c19":
			sz := emSizes(sc.Gen, sc.Steps)
			caps := map[int]bool{sc.Cap: true, 0: true, emTotal(sz): true}
			for _, e := range sz {
				for d := 0; d < 4; d++ {
					if e-d >= 0 {
						caps[e-d] = true
					}
				}
			}
			if tier == "thorough" {
				for c := 0; c <= emTotal(sz); c++ {
					caps[c] = true
				}
			}
			cl := []int{}
			for c := range caps {
				cl = append(cl, c)
			}
			sort.Ints(cl)
			for _, c := range cl {
				t := sc
				t.Nil, t.Cap = false, c
				ne++
				if f := emGuarded("C19.observers", t, 0, func() *emFail { return emC19(t) }); f != nil && !seen[f.Key] {
					_, _, f2 := emShrink(t, 0, func(s emScript, _ int) *emFail { return emGuarded("C19.observers", s, 0, func() *emFail { return emC19(s) }) })
					if f2 == nil {
						f2 = f
					}
					report(f2)
				}
			}
		case "c16":
			for k := 0; k <= len(sc.Steps); k++ {
				ne++
				if f := emGuarded("C16.observers", sc, k, func() *emFail { return emC16(sc, k) }); f != nil && !seen[f.Key] {
					_, _, f2 := emShrink(sc, k, func(s emScript, kk int) *emFail {
						return emGuarded("C16.observers", s, kk, func() *emFail { return emC16(s, kk) })
					})
					if f2 == nil {
						f2 = f
					}
					report(f2)
				}
			}
		}
	}
	cdir := ""
	if len(args) > 4 {
		cdir = args[4]
	}
	for _, sc := range emLoadCorpus(cdir) {
		one(sc)
	}
	for nh < count {
		tag, ops := g.flat(tier)
		gen := g.r.p(70)
		sz := emSizes(gen, ops)
		_, c := g.capacity(sz)
		one(emScript{Tag: tag, Gen: gen, Cap: c, Fill: g.r.n(256), Steps: ops})
	}
	fmt.Printf("DONE %s histories=%d evaluations=%d failures=%d\n", which, nh, ne, len(seen))
	if len(seen) > 0 {
		return 1
	}
	return 0
}

func emReplayCmd(args []string) int {
	if len(args) < 2 {
		fmt.Fprintln(os.Stderr, "usage: emitreplay <c19|c16|case> <file.json>")
		return 2
	}
	if _, err := emBuildClasses(); err != nil {
		fmt.Println("ERROR " + err.Error())
		return 1
	}
	b, err := os.ReadFile(args[1])
	if err != nil {
		fmt.Println("ERROR " + err.Error())
		return 2
	}
	var f emFail
	if err := json.Unmarshal(b, &f); err != nil {
		fmt.Println("ERROR " + err.Error())
		return 2
	}
	var r *emFail
	switch args[0] {
	case "c19":
		r = emC19(f.Script)
	case "c16":
		r = emC16(f.Script, f.K)
	default:
		c := emRunScript(0, f.Script)
		o, _ := json.Marshal(c)
		fmt.Println(string(o))
		return 0
	}
	if r != nil {
		o, _ := json.Marshal(r)
		fmt.Printf("FAIL %s\n", o)
		return 1
	}
	fmt.Println("holds on the current tree")
	return 0
}

func init() {
	commands["emitcases"] = emCasesCmd
	commands["emitcheck"] = emCheckCmd
	commands["emitreplay"] = emReplayCmd
}
