package main

// RunUntil harness (C12): runs the real emulator.System.RunUntil on random programs / targets / budgets with a
// counting Logger and counting OnPC callbacks, and compares it with a reference loop written here over the real
// CPU.Step of a second, identically initialised System (falsifier of the loop contract).  It also prints, per case,
// the reference trajectory (PBR:PC and cycle count of every step) so that the check can evaluate the Coq model
// Model.Disasm.run_until on the same trajectory (tie of the loop logic).

import (
	"flag"
	"fmt"
	"time"

	"github.com/alttpo/snes/emulator"
)

type runRng struct{ s uint64 }

func (r *runRng) next() uint64 {
	r.s ^= r.s << 13
	r.s ^= r.s >> 7
	r.s ^= r.s << 17
	return r.s
}
func (r *runRng) n(k int) int { return int(r.next() % uint64(k)) }

// the logger also implements emulator.Reserver and emulator.Committer (RunUntil treats such loggers specially)
type countLogger struct{ writes, bytes, reserved, commits int }

func (c *countLogger) Reserve(n int) { c.reserved += n }
func (c *countLogger) Commit()       { c.commits++ }

func (c *countLogger) Write(p []byte) (int, error) {
	c.writes++
	c.bytes += len(p)
	return len(p), nil
}

// straight-line friendly opcodes (implied / immediate / dp) plus a few branches and jumps inside the bank
var runOps = []byte{0xEA, 0xE8, 0xC8, 0xCA, 0x88, 0x18, 0x38, 0xA9, 0xA2, 0xA0, 0x69, 0xE9, 0x85, 0xA5, 0xE6, 0xC6, 0x1A, 0x3A,
	0xC2, 0xE2, 0xD0, 0xF0, 0x80, 0x10, 0x30, 0x48, 0x68, 0xDA, 0xFA, 0xEB, 0xAA, 0xA8, 0x8A, 0x98, 0x42, 0xDB, 0xCB, 0x4C}

func newRunSystem(seed uint64) *emulator.System {
	s := &emulator.System{}
	if err := s.CreateEmulator(); err != nil {
		panic(err)
	}
	r := &runRng{s: seed*0x9E3779B97F4A7C15 + 77}
	// program bytes in ROM bank 0 ($8000-$FFFF -> ROM[0:0x8000])
	for i := 0; i < 0x8000; i++ {
		switch r.n(4) {
		case 0:
			s.ROM[i] = byte(r.next())
		default:
			s.ROM[i] = runOps[r.n(len(runOps))]
		}
	}
	for i := 0; i < 0x2000; i++ {
		s.WRAM[i] = byte(r.next())
	}
	s.CPU.Reset()
	s.CPU.E = 0
	if r.n(4) == 0 {
		s.CPU.E = 1
	}
	s.SetPC(0x008000 + uint32(r.n(0x7000)))
	s.CPU.SP = 0x01FF
	return s
}

func runUntilCmd(args []string) int {
	fs := flag.NewFlagSet("rununtil", flag.ExitOnError)
	seed := fs.Uint64("seed", 1, "")
	n := fs.Int("n", 400, "cases")
	fs.Parse(args)
	r := &runRng{s: *seed*0x2545F4914F6CDD1D + 99}
	fails := 0
	for c := 0; c < *n; c++ {
		pseed := r.next()
		// reference trajectory
		ref := newRunSystem(pseed)
		type stepRec struct {
			pc     uint32
			cycles int
		}
		var traj []stepRec
		maxSteps := 1 + r.n(60)
		if r.n(5) == 0 {
			maxSteps = 150 + r.n(100) // budgets beyond 256 cycles
		}
		func() {
			defer func() { recover() }()
			for i := 0; i < maxSteps+4; i++ {
				pc := ref.GetPC()
				cy, _ := ref.CPU.Step()
				traj = append(traj, stepRec{pc, cy})
			}
		}()
		if len(traj) < 3 {
			continue
		}
		// choose target and budget
		k := r.n(len(traj))
		target := traj[k].pc
		if r.n(4) == 0 {
			target = uint32(r.next() & 0xFFFFFF) // most likely never reached
		}
		if r.n(10) == 0 {
			target = traj[0].pc // already there
		}
		sum := 0
		for i := 0; i < k && i < len(traj); i++ {
			sum += traj[i].cycles
		}
		var maxc uint64
		switch r.n(6) {
		case 0:
			maxc = 0
		case 1:
			maxc = 1
		case 2:
			maxc = uint64(sum)
		case 3:
			if sum > 0 {
				maxc = uint64(sum - 1)
			}
		case 4:
			maxc = uint64(sum + 1)
		default:
			maxc = uint64(r.n(sum + 40))
		}
		withLogger := r.n(2) == 0
		// reference loop over the real Step of a fresh identical system
		rs := newRunSystem(pseed)
		refLog, refSteps := 0, 0
		fetched := map[uint32]int{}
		var cyc uint64
		refPanicked := false
		refStuck := false
		func() {
			defer func() {
				if e := recover(); e != nil {
					refPanicked = true
				}
			}()
			for cyc < maxc {
				if uint64(refSteps) > maxc+8 {
					refStuck = true // a Step reported no cycles: the loop cannot make progress
					break
				}
				refLog++
				if rs.GetPC() == target {
					break
				}
				fetched[rs.GetPC()]++
				nc, _ := rs.CPU.Step()
				cyc += uint64(nc)
				refSteps++
			}
		}()
		refRet := rs.GetPC() == target
		// the real RunUntil with counting callbacks on every fetched address and on the target
		sys := newRunSystem(pseed)
		lg := &countLogger{}
		if withLogger {
			sys.Logger = lg
		}
		counts := map[uint32]int{}
		sys.CPU.OnPC = map[uint32]func(){}
		for a := range fetched {
			a := a
			sys.CPU.OnPC[a] = func() { counts[a]++ }
		}
		targetHits := 0
		if _, ok := fetched[target]; !ok {
			sys.CPU.OnPC[target] = func() { targetHits++ }
		}
		var ret bool
		panicked := false
		done := make(chan struct{})
		go func() {
			defer close(done)
			defer func() {
				if e := recover(); e != nil {
					panicked = true
				}
			}()
			ret = sys.RunUntil(target, maxc)
		}()
		hung := false
		select {
		case <-done:
		case <-time.After(3 * time.Second):
			hung = true // the goroutine is abandoned; the budget is a few hundred cycles at most
		}
		bad := ""
		if hung || refStuck {
			bad = fmt.Sprintf("RunUntil does not return within its budget (hung=%v, a Step reported no cycles=%v)", hung, refStuck)
			fails++
			if fails <= 5 {
				fmt.Printf("FAIL C12 rununtil case=%d pseed=%d target=%06x maxc=%d logger=%v: %s\n", c, pseed, target, maxc, withLogger, bad)
			}
			if hung {
				// do not touch sys any more (still running); counters of this case are not reliable
				continue
			}
			continue
		}
		if refPanicked || panicked {
			// the program ran into an address the System does not map (the bus fails loudly there, C13): outside this property
			if refPanicked != panicked && !withLogger {
				bad = "RunUntil and the reference loop disagree on a bus panic"
			}
			if bad == "" {
				continue
			}
		} else if ret != refRet {
			bad = fmt.Sprintf("result %v, reference %v", ret, refRet)
		} else if ret != (sys.GetPC() == target) {
			bad = "result does not say whether PC equals the target on exit"
		} else if sys.CPU.AllCycles != rs.CPU.AllCycles || sys.GetPC() != rs.GetPC() || sys.CPU.RA != rs.CPU.RA || sys.CPU.SP != rs.CPU.SP {
			bad = fmt.Sprintf("final state differs from the reference loop: AllCycles %d vs %d, PC %06x vs %06x", sys.CPU.AllCycles, rs.CPU.AllCycles, sys.GetPC(), rs.GetPC())
		} else if withLogger && lg.writes != refLog {
			bad = fmt.Sprintf("logger writes %d, loop iterations %d", lg.writes, refLog)
		} else if targetHits != 0 {
			bad = "the instruction at the target address was executed"
		} else {
			for a, want := range fetched {
				if counts[a] != want {
					bad = fmt.Sprintf("OnPC[%06x] ran %d times for %d fetches", a, counts[a], want)
					break
				}
			}
		}
		if bad != "" {
			fails++
			if fails <= 5 {
				fmt.Printf("FAIL C12 rununtil case=%d pseed=%d target=%06x maxc=%d logger=%v: %s\n", c, pseed, target, maxc, withLogger, bad)
			}
		}
		// trajectory for the Coq model: target maxc ret steps | pc:cycles ...
		rv := 0
		if ret {
			rv = 1
		}
		if refSteps+2 > len(traj) {
			continue // the recorded trajectory is too short to replay this budget in the model
		}
		fmt.Printf("CASE %d %d %d %d %d T", c, target, maxc, rv, refSteps)
		for _, t := range traj {
			fmt.Printf(" %d:%d", t.pc, t.cycles)
		}
		fmt.Println()
	}
	fmt.Printf("STAT rununtil_cases %d\nSTAT rununtil_fails %d\n", *n, fails)
	return 0
}

func init() {
	commands["rununtil"] = runUntilCmd
}
