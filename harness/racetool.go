package main

// C18 runtime tie / falsifier: many goroutines, each creating and driving ITS OWN instances of the
// library's objects (and calling the stateless functions), compared with the same work done
// sequentially beforehand.  Built twice by checks/sched.py: plainly and with -race.
//
//	harness race -seed S -goroutines G -jobs J -secs T [-mix kind,kind,...] [-only kind:seed,...]
//
// Output: one line per job kind with counts, `FAIL race ...` lines for result mismatches (with the
// job mix as replay), `NONDET ...` if a job is not even deterministic sequentially (machinery error),
// and a final `race: ...` summary line.  Race-detector reports go to stderr ("WARNING: DATA RACE").

import (
	"bytes"
	"flag"
	"fmt"
	"hash/fnv"
	"os"
	"runtime"
	"sort"
	"strings"
	"sync"
	"sync/atomic"
	"time"

	snes "github.com/alttpo/snes"
	"github.com/alttpo/snes/asm"
	"github.com/alttpo/snes/color15"
	"github.com/alttpo/snes/emulator"
	"github.com/alttpo/snes/emulator/bus"
	"github.com/alttpo/snes/emulator/cpu65c816"
	"github.com/alttpo/snes/emulator/cpualt"
	"github.com/alttpo/snes/emulator/memory"
	"github.com/alttpo/snes/mapping/exhirom"
	"github.com/alttpo/snes/mapping/hirom"
	"github.com/alttpo/snes/mapping/lorom"
	"github.com/alttpo/snes/mapping/sa1rom"
	"github.com/alttpo/snes/mapping/util"
	"github.com/alttpo/snes/xbuf"
)

type raceRng struct{ s uint64 }

func (r *raceRng) next() uint64 {
	r.s += 0x9E3779B97F4A7C15
	z := r.s
	z = (z ^ (z >> 30)) * 0xBF58476D1CE4E5B9
	z = (z ^ (z >> 27)) * 0x94D049BB133111EB
	return z ^ (z >> 31)
}
func (r *raceRng) n(k int) int { return int(r.next() % uint64(k)) }

type raceDigest struct {
	h   uint64
	n   int
	log []string // first few observations, for the failure report
}

func (d *raceDigest) mix(b []byte) {
	h := uint64(14695981039346656037)
	for _, c := range b {
		h = (h ^ uint64(c)) * 1099511628211
	}
	d.h = d.h*1099511628211 ^ h
	d.n++
}

// add records one observation.  fmt is used only for the first few (kept for the failure report) and
// for observations that are rare; the per-step observations of the CPU jobs go through addv, because
// fmt's internal sync.Pool would add happens-before edges between goroutines and blunt the race detector.
func (d *raceDigest) add(format string, a ...interface{}) {
	s := fmt.Sprintf(format, a...)
	d.mix([]byte(s))
	if len(d.log) < 6 {
		if len(s) > 160 {
			s = s[:160] + "..."
		}
		d.log = append(d.log, s)
	}
}

// addv: text + numbers, no fmt unless the observation is one of the first few.
func (d *raceDigest) addv(text []byte, vals ...uint64) {
	if len(d.log) < 6 {
		d.add("%s %x", text, vals)
		return
	}
	var buf [8]byte
	h := uint64(14695981039346656037)
	for _, c := range text {
		h = (h ^ uint64(c)) * 1099511628211
	}
	for _, v := range vals {
		for i := 0; i < 8; i++ {
			buf[i] = byte(v >> (8 * i))
		}
		for _, c := range buf {
			h = (h ^ uint64(c)) * 1099511628211
		}
	}
	d.h = d.h*1099511628211 ^ h
	d.n++
}

func (d *raceDigest) String() string { return fmt.Sprintf("%016x/%d", d.h, d.n) }

func raceGuard(d *raceDigest, what string, f func()) {
	defer func() {
		if e := recover(); e != nil {
			d.add("%s: panic %v", what, e)
		}
	}()
	f()
}

// ------------------------------------------------------------------------------------------------
// programs for the System, written with the Emitter (so the emitter is exercised as well)

func raceProgram(r *raceRng, text bool) (code []byte, target uint32, listing string) {
	buf := make([]byte, 0x400)
	a := asm.NewEmitter(buf, text)
	a.SetBase(0x008000)
	a.AssumeSEP(0x30)
	k := uint8(3 + r.n(20))
	a.SEP(0x30)
	a.LDA_imm8_b(uint8(r.n(256)))
	a.STA_long(0x7E0010 + uint32(r.n(8)))
	a.LDX_imm8_b(k)
	a.Label("loop")
	a.INC_dp(0x20)
	a.LDA_dp(0x20)
	a.ADC_imm8_b(uint8(r.n(256)))
	a.STA_abs_x(0x0100)
	a.PHA()
	a.XBA()
	a.PLA()
	a.DEX()
	a.BNE("loop")
	a.REP(0x30)
	a.LDA_imm16_w(uint16(r.n(65536)))
	a.STA_abs(0x0040)
	a.ORA_imm16_w(uint16(r.n(65536)))
	a.AND_imm16_w(uint16(r.n(65536)) | 0x0101)
	a.STA_long(0x7F0000 + uint32(r.n(0x100)))
	a.LDX_imm16_w(uint16(r.n(0x100)))
	a.LDY_imm16_w(uint16(r.n(0x100)))
	a.PHX()
	a.PHY()
	a.PLX()
	a.PLY()
	a.JSR_abs(0)
	jsrAt := a.Len() - 2
	a.CMP_imm16_w(uint16(r.n(65536)))
	a.BEQ("skip")
	a.INC_abs(0x0042)
	a.Label("skip")
	a.SEP(0x20)
	a.LDA_long(0x7E0010)
	a.WDM(uint8(r.n(256)))
	a.BRA("end")
	sub := a.Label("sub")
	a.INC_abs(0x0044)
	a.DEC_abs(0x0046)
	a.TXA()
	a.TAX()
	a.RTS()
	a.Comment("the end")
	end := a.Label("end")
	a.NOP()
	a.STP()
	if err := a.Finalize(); err != nil {
		panic(err)
	}
	code = append([]byte(nil), a.Bytes()...)
	code[jsrAt] = byte(sub)
	code[jsrAt+1] = byte(sub >> 8)
	if text {
		var tb bytes.Buffer
		a.WriteTextTo(&tb)
		listing = tb.String()
	}
	return code, end, listing
}

func raceSystem(seed uint64, withLog bool) *raceDigest {
	d := &raceDigest{}
	r := &raceRng{s: seed}
	s := &emulator.System{}
	if err := s.CreateEmulator(); err != nil {
		d.add("create: %v", err)
		return d
	}
	var logb bytes.Buffer
	if withLog {
		s.Logger = &logb
	}
	for round := 0; round < 8; round++ {
		code, target, listing := raceProgram(r, round == 0)
		copy(s.ROM[0:], code)
		s.CPU.SP = 0x01FF
		s.CPU.Stopped = false
		s.SetPC(0x008000)
		var ok bool
		raceGuard(d, "RunUntil", func() { ok = s.RunUntil(target, 4000) })
		c := &s.CPU
		d.add("run %d ok=%v pc=%06x A=%04x X=%04x Y=%04x SP=%04x D=%04x DBR=%02x P=%d%d%d%d%d%d%d%d E=%d cyc=%d wdm=%02x",
			round, ok, s.GetPC(), c.RA, c.RX, c.RY, c.SP, c.RD, c.RDBR, c.N, c.V, c.M, c.X, c.D, c.I, c.Z, c.C, c.E, c.AllCycles, c.WDM)
		// the hardware-register window ($2000-$7FFF of the system banks) belongs to this System too
		raceGuard(d, "io", func() {
			for k := 0; k < 6; k++ {
				a := uint32(r.next()%0x40)<<16 | 0x2100 + uint32(r.next()%0x2300)
				v := byte(r.next())
				s.Bus.EaWrite(a, v)
				d.add("io %06x<-%02x reads %02x / %02x", a, v, s.Bus.EaRead(a), s.Bus.EaRead(a^0x800000))
			}
		})
		d.add("wram %x", s.WRAM[0:0x60])
		d.add("wram1 %x", s.WRAM[0x100:0x120])
		d.add("listing %s", listing)
		if withLog {
			d.add("trace %s", logb.String())
			logb.Reset()
		}
	}
	return d
}

// flat RAM for the stand-alone CPUs: 64 KiB mirrored into every bank, owned by the job
type raceMem struct{ data []byte }

func (m *raceMem) Read(a uint32) byte     { return m.data[a&0xFFFF] }
func (m *raceMem) Write(a uint32, v byte) { m.data[a&0xFFFF] = v }
func (m *raceMem) Shutdown()              {}
func (m *raceMem) Size() uint32           { return 1 << 24 }
func (m *raceMem) Clear()                 {}
func (m *raceMem) Dump(a uint32) []byte   { return nil }

// opcodes that are left out of the random byte soup: STP/WAI (stop the run early)
func raceFill(r *raceRng, data []byte) {
	for i := range data {
		b := byte(r.next())
		if b == 0xDB || b == 0xCB {
			b = 0xEA
		}
		data[i] = b
	}
}

func raceCPU65(seed uint64) *raceDigest {
	d := &raceDigest{}
	r := &raceRng{s: seed}
	b, _ := bus.New()
	m := &raceMem{data: make([]byte, 0x10000)}
	raceFill(r, m.data)
	if err := b.Attach(m, "flat", 0, 0xFFFFFF); err != nil {
		d.add("attach %v", err)
		return d
	}
	c, _ := cpu65c816.New(b)
	c.Reset()
	c.E = 0
	c.PC = uint16(r.n(0x10000))
	var o []byte
	for i := 0; i < 1500; i++ {
		raceGuard(d, "step", func() {
			o = c.DisassembleCurrentPC(o[:0])
			n, stop := c.Step()
			st := uint64(0)
			if stop {
				st = 1
			}
			d.addv(o, uint64(n), st, uint64(c.RK), uint64(c.PC), uint64(c.RA), uint64(c.RAh), uint64(c.RAl), uint64(c.RX), uint64(c.RXl),
				uint64(c.RY), uint64(c.RYl), uint64(c.SP), uint64(c.RD), uint64(c.RDBR), uint64(c.Flags()), uint64(c.E), c.AllCycles)
		})
		if i%97 == 50 {
			c.TriggerIRQ()
		}
	}
	d.add("mem %x", fnvBytes(m.data))
	return d
}

func fnvBytes(b []byte) uint64 {
	f := fnv.New64a()
	f.Write(b)
	return f.Sum64()
}

func raceCPUAlt(seed uint64) *raceDigest {
	d := &raceDigest{}
	r := &raceRng{s: seed}
	c := &cpualt.CPU{}
	c.Init()
	m := &raceMem{data: make([]byte, 0x10000)}
	raceFill(r, m.data)
	c.Bus.AttachReader(0, 0xFFFFFF, func(a uint32) uint8 { return m.Read(a) })
	c.Bus.AttachWriter(0, 0xFFFFFF, func(a uint32, v uint8) { m.Write(a, v) })
	c.Reset()
	c.E = 0
	c.PC = uint16(r.n(0x10000))
	var tb bytes.Buffer
	for i := 0; i < 1500; i++ {
		raceGuard(d, "step", func() {
			tb.Reset()
			c.DisassembleCurrentPC(&tb)
			n, stop := c.Step()
			st := uint64(0)
			if stop {
				st = 1
			}
			d.addv(tb.Bytes(), uint64(n), st, uint64(c.RK), uint64(c.PC), uint64(c.RA), uint64(c.RAh), uint64(c.RAl), uint64(c.RX), uint64(c.RXl),
				uint64(c.RY), uint64(c.RYl), uint64(c.SP), uint64(c.RD), uint64(c.RDBR), uint64(c.Flags()), uint64(c.E), c.AllCycles)
		})
		if i%97 == 50 {
			c.TriggerIRQ()
		}
	}
	d.add("mem %x", fnvBytes(m.data))
	return d
}

func raceBus(seed uint64) *raceDigest {
	d := &raceDigest{}
	r := &raceRng{s: seed}
	b, _ := bus.New()
	var rams [][]byte
	for i := 0; i < 6; i++ {
		size := uint32(16 << r.n(8))
		start := (uint32(r.n(1<<20)) << 4) & 0xFFFFF0
		if start+size > 1<<24 {
			start = 1<<24 - size
		}
		data := make([]byte, size)
		for j := range data {
			data[j] = byte(r.next())
		}
		rams = append(rams, data)
		err := b.Attach(memory.NewRAM(data, start), fmt.Sprintf("ram%d", i), start, start+size-1)
		d.add("attach %06x+%x %v", start, size, err)
		for k := 0; k < 20; k++ {
			a := start + uint32(r.n(int(size)))
			switch r.n(4) {
			case 0:
				b.EaWrite(a, byte(r.next()))
				d.add("w %06x ea=%06x wr=%v", a, b.EA, b.Write)
			case 1:
				d.add("r %06x=%02x ea=%06x", a, b.EaRead(a), b.EA)
			case 2:
				if size >= 32 {
					off := uint16(a)
					if uint32(off)+3 < 0x10000 && a+3 < start+size {
						raceGuard(d, "read24", func() { d.add("r24 %06x=%06x", a, b.EaRead24_wrap(byte(a>>16), off)) })
					}
				}
			case 3:
				end := a + uint32(r.n(40))
				if end >= start+size {
					end = start + size - 1
				}
				buf := make([]byte, 64)
				raceGuard(d, "dump", func() { n := b.EaDump(a, end, buf); d.add("dump %06x-%06x n=%d %x", a, end, n, buf) })
			}
		}
	}
	_ = b.String()
	for _, data := range rams {
		d.add("ram %x", fnvBytes(data))
	}
	return d
}

func raceEmitter(seed uint64) *raceDigest {
	d := &raceDigest{}
	r := &raceRng{s: seed}
	text := r.n(4) != 0
	a := asm.NewEmitter(make([]byte, 0x800), text)
	a.SetBase(0x008000 + uint32(r.n(0x1000)))
	lbl := 0
	emitSome := func(e *asm.Emitter, count int, tag string) {
		for i := 0; i < count; i++ {
			raceGuard(d, "emit", func() {
				switch r.n(24) {
				case 0:
					e.SEP(asm.Flags(r.n(256)))
				case 1:
					e.REP(asm.Flags(r.n(256)))
				case 2:
					e.LDA_imm8_b(uint8(r.next()))
				case 3:
					e.LDA_imm16_w(uint16(r.next()))
				case 4:
					e.STA_long(uint32(r.next()) & 0xFFFFFF)
				case 5:
					e.JSL(uint32(r.next()) & 0xFFFFFF)
				case 6:
					name := fmt.Sprintf("%s%d", tag, lbl)
					lbl++
					e.BNE(name)
					e.NOP()
					e.Label(name)
				case 7:
					name := fmt.Sprintf("%s%d", tag, lbl)
					lbl++
					e.Label(name)
					e.DEX()
					e.BPL(name)
				case 8:
					name := fmt.Sprintf("%s%d", tag, lbl)
					lbl++
					e.JMP_abs(name)
					e.Label(name)
				case 9:
					e.Comment(fmt.Sprintf("comment %d", r.n(1000)))
				case 10:
					bs := make([]byte, r.n(20))
					for j := range bs {
						bs[j] = byte(r.next())
					}
					e.EmitBytes(bs)
				case 11:
					e.MVN(uint8(r.next()), uint8(r.next()))
				case 12:
					e.LDX_imm8_b(uint8(r.next()))
				case 13:
					e.LDY_imm16_w(uint16(r.next()))
				case 14:
					e.STZ_abs_x(uint16(r.next()))
				case 15:
					e.JML(uint32(r.next()) & 0xFFFFFF)
				case 16:
					e.CMP_imm8_b(uint8(r.next()))
				case 17:
					e.ORA_long(uint32(r.next()) & 0xFFFFFF)
				case 18:
					e.BRA_imm8(int8(r.next()))
				case 19:
					e.JMP_indirect(uint16(r.next()))
				case 20:
					e.SBC_imm8_b(uint8(r.next()))
				case 21:
					e.AssumeSEP(asm.Flags(r.n(256)) & 0x30)
				case 22:
					e.AssumeREP(asm.Flags(r.n(256)) & 0x30)
				case 23:
					e.PHB()
					e.PHK()
					e.PLB()
				}
			})
		}
	}
	emitSome(a, 20+r.n(40), "a")
	// Clone + Append
	c := a.Clone(make([]byte, 0x400))
	emitSome(c, 10+r.n(30), "c")
	d.add("clone pc=%06x len=%d base=%06x", c.PC(), c.Len(), c.GetBase())
	raceGuard(d, "append", func() { a.Append(c) })
	emitSome(a, r.n(20), "z")
	var err error
	raceGuard(d, "finalize", func() { err = a.Finalize() })
	d.add("final err=%v pc=%06x len=%d cap=%d flags=%02x", err != nil, a.PC(), a.Len(), a.Cap(), a.Flags())
	d.add("bytes %x", a.Bytes())
	var tb, hb bytes.Buffer
	raceGuard(d, "text", func() { d.add("texterr %v", a.WriteTextTo(&tb)) })
	raceGuard(d, "hex", func() { d.add("hexerr %v", a.WriteHexTo(&hb)) })
	d.add("text %s", tb.String())
	d.add("hex %s", hb.String())
	if v, ok := a.GetLabel("a0"); ok {
		d.add("a0=%06x", v)
	}
	// dry-run emitter and a single unresolved label (error path)
	n := asm.NewEmitter(nil, false)
	n.SetBase(0x8000)
	n.BEQ("nowhere")
	d.add("dry pc=%06x err=%v", n.PC(), n.Finalize())
	return d
}

func raceROM(seed uint64) *raceDigest {
	d := &raceDigest{}
	r := &raceRng{s: seed}
	contents := make([]byte, 0x10000+r.n(4)*0x8000)
	for i := range contents {
		contents[i] = byte(r.next())
	}
	if r.n(2) == 0 {
		contents[0x7FDA] = 0x33
	}
	rom, err := snes.NewROM(fmt.Sprintf("rom%d", seed), contents)
	d.add("new err=%v", err)
	if rom == nil {
		return d
	}
	d.add("hdr %+v", rom.Header)
	d.add("score %d size=%d ram=%d region=%q", rom.Header.Score(0x7FB0), rom.Header.ROMSizeBytes(), rom.Header.RAMSizeBytes(), snes.RegionNames[rom.Header.DestinationCode])
	rom.Header.MakerCode = uint16(r.next())
	rom.Header.GameCode = uint32(r.next())
	rom.Header.ROMSize = byte(r.n(16))
	rom.Header.CheckSum = uint16(r.next())
	rom.Header.NativeVectors.NMI = uint16(r.next())
	copy(rom.Header.Title[:], fmt.Sprintf("TITLE %d", seed))
	raceGuard(d, "writeheader", func() { d.add("wh %v", rom.WriteHeader()) })
	raceGuard(d, "readheader", func() { d.add("rh %v", rom.ReadHeader()) })
	d.add("hdr2 %+v", rom.Header)
	for i := 0; i < 40; i++ {
		bank := uint32(r.n(len(contents) / 0x8000))
		page := uint32(r.n(0x10000))
		if r.n(4) == 0 {
			page = 0x7FF0 + uint32(r.n(0x20))
		}
		if r.n(4) == 0 {
			page = 0xFFF0 + uint32(r.n(0x10))
		}
		addr := bank<<16 | page
		buf := make([]byte, 1+r.n(40))
		raceGuard(d, "busreader", func() {
			n, err := rom.BusReader(addr).Read(buf)
			d.add("rd %06x n=%d err=%v %x", addr, n, err, buf)
		})
		for j := range buf {
			buf[j] = byte(r.next())
		}
		raceGuard(d, "buswriter", func() {
			w := rom.BusWriter(addr)
			n, err := w.Write(buf)
			n2, err2 := w.Write(buf[:len(buf)/2])
			d.add("wr %06x n=%d err=%v n2=%d err2=%v", addr, n, err, n2, err2)
		})
	}
	d.add("contents %x", fnvBytes(contents))
	return d
}

type raceMapFn func(uint32) (uint32, error)

func raceStateless(seed uint64) *raceDigest {
	d := &raceDigest{}
	r := &raceRng{s: seed}
	fns := []raceMapFn{lorom.BusAddressToPak, lorom.PakAddressToBus, hirom.BusAddressToPak, hirom.PakAddressToBus,
		exhirom.BusAddressToPak, exhirom.PakAddressToBus, sa1rom.BusAddressToPak, sa1rom.PakAddressToBus}
	var h uint64
	nerr := 0
	for i := 0; i < 20000; i++ {
		a := uint32(r.next()) & 0xFFFFFF
		if i%7 == 0 {
			a = (a & 0xFF0000) | []uint32{0, 0x1FFF, 0x2000, 0x7FFF, 0x8000, 0xFFFF}[r.n(6)]
		}
		for k, f := range fns {
			v, err := f(a)
			e := uint64(0)
			if err != nil {
				nerr++
				e = 1
				if err == util.ErrUnmappedAddress {
					e = 2
				}
				e += uint64(len(err.Error())) << 2
			}
			h = (h*1000003 + uint64(v) + e<<32 + uint64(k)) & (1<<61 - 1)
		}
		h = (h*1000003 + uint64(util.BankToLinear(a))) & (1<<61 - 1)
	}
	d.add("mappers %x errs=%d", h, nerr)
	h = 0
	for i := 0; i < 20000; i++ {
		c := color15.Color(r.next())
		m, dv := uint8(r.next()), uint8(1+r.n(255))
		rr, g, b := c.ToRGB()
		h = (h*1000003 + uint64(rr) + uint64(g)<<8 + uint64(b)<<16 + uint64(color15.ToColor15(uint8(r.next()), g, b))<<24 +
			uint64(c.Luminosity())<<40 + uint64(c.MulDiv(m, dv))<<44) & (1<<61 - 1)
	}
	d.add("color %x", h)
	var xb xbuf.B
	for i := 0; i < 200; i++ {
		xb.Db(byte(r.next())).C(' ').X02(uint8(r.next())).X04(uint16(r.next())).X06(uint32(r.next())).S("s").Sb([]byte("sb")).Sn("n", r.n(6))
	}
	d.add("xbuf %s", []byte(xb))
	names := make([]string, 0, len(snes.RegionNames))
	for k, v := range snes.RegionNames {
		names = append(names, fmt.Sprintf("%d=%s", k, v))
	}
	sort.Strings(names)
	d.add("regions %v", names)
	return d
}

type raceJob struct {
	kind string
	seed uint64
}

var raceKinds = map[string]func(seed uint64) *raceDigest{
	"syslog":    func(s uint64) *raceDigest { return raceSystem(s, true) },
	"sys":       func(s uint64) *raceDigest { return raceSystem(s, false) },
	"cpu65":     raceCPU65,
	"cpualt":    raceCPUAlt,
	"bus":       raceBus,
	"emitter":   raceEmitter,
	"rom":       raceROM,
	"stateless": raceStateless,
}

// default mix: cheap kinds more often; the 30 MB kinds (System, both buses) a few at a time
var raceDefaultMix = []string{"syslog", "cpu65", "emitter", "rom", "stateless", "cpualt", "bus", "emitter", "cpu65", "sys", "rom", "stateless"}

func raceCmd(args []string) int {
	fs := flag.NewFlagSet("race", flag.ExitOnError)
	seed := fs.Uint64("seed", 1, "seed")
	gor := fs.Int("goroutines", 12, "concurrent goroutines")
	njobs := fs.Int("jobs", 24, "distinct jobs (kind, seed)")
	secs := fs.Float64("secs", 10, "soak duration of the concurrent phase")
	mix := fs.String("mix", "", "comma-separated job kinds (default: built-in mix)")
	only := fs.String("only", "", "explicit jobs kind:seed,... (replay)")
	order := fs.String("order", "before", "before: sequential reference first; after: first concurrent round on a cold process, reference afterwards")
	once := fs.Bool("once", false, "run the sequential reference once (skip the determinism re-run)")
	show := fs.Bool("show", false, "print the first observations of every job of the sequential phase")
	fs.Parse(args)
	var jobs []raceJob
	if *only != "" {
		for _, it := range strings.Split(*only, ",") {
			var k string
			var s uint64
			p := strings.SplitN(it, ":", 2)
			k = p[0]
			fmt.Sscan(p[1], &s)
			if raceKinds[k] == nil {
				fmt.Println("unknown job kind", k)
				return 2
			}
			jobs = append(jobs, raceJob{k, s})
		}
	} else {
		kinds := raceDefaultMix
		if *mix != "" {
			kinds = strings.Split(*mix, ",")
		}
		r := &raceRng{s: *seed}
		for i := 0; i < *njobs; i++ {
			k := kinds[i%len(kinds)]
			if raceKinds[k] == nil {
				fmt.Println("unknown job kind", k)
				return 2
			}
			jobs = append(jobs, raceJob{k, r.next() >> 1})
		}
	}
	G := *gor
	if G > len(jobs) {
		G = len(jobs)
	}
	var mixDesc []string
	for _, j := range jobs {
		mixDesc = append(mixDesc, fmt.Sprintf("%s:%d", j.kind, j.seed))
	}
	var fails int64
	var runs int64
	perKind := map[string]*int64{}
	for k := range raceKinds {
		perKind[k] = new(int64)
	}
	var mu sync.Mutex
	want := make([]*raceDigest, len(jobs))
	rounds := 0
	report := func(i, g int, got *raceDigest) {
		j := jobs[i]
		if atomic.AddInt64(&fails, 1) <= 5 {
			mu.Lock()
			fmt.Printf("FAIL race job=%s:%d goroutine=%d round=%d concurrent=%s sequential=%s\n", j.kind, j.seed, g, rounds, got, want[i])
			for k := range want[i].log {
				if k < len(got.log) && got.log[k] != want[i].log[k] {
					fmt.Printf("  first differing observation: sequential %q\n                               concurrent %q\n", want[i].log[k], got.log[k])
					break
				}
			}
			fmt.Printf("  replay: harness race -order %s -goroutines %d -secs %g -only %s\n", *order, G, *secs, strings.Join(mixDesc, ","))
			mu.Unlock()
		}
	}
	// sequential reference (twice unless -once: the work must be deterministic on its own)
	var seqDur time.Duration
	sequential := func() int {
		rc := 0
		t0 := time.Now()
		for i, j := range jobs {
			want[i] = raceKinds[j.kind](j.seed)
			again := want[i]
			if !*once {
				again = raceKinds[j.kind](j.seed)
			}
			if *show {
				fmt.Printf("JOB %s:%d %s\n", j.kind, j.seed, want[i])
				for _, l := range want[i].log {
					fmt.Printf("    %q\n", l)
				}
			}
			if again.String() != want[i].String() {
				fmt.Printf("NONDET %s:%d sequential runs differ: %s vs %s\n", j.kind, j.seed, want[i], again)
				rc = 3
			}
		}
		seqDur = time.Since(t0)
		return rc
	}
	// One concurrent round; a barrier lines the goroutines up.
	//   mixed round:   goroutine g runs jobs g', g'+G, g'+2G, ... (g' rotates every round) -- different kinds overlap;
	//   by-kind round: for every kind in turn ALL goroutines run jobs of that kind at the same moment (goroutine g
	//                  takes the (g mod n)-th job of the kind; a job creates its own instances, so several
	//                  goroutines may run the same (kind, seed)) -- the same library code overlaps with itself,
	//                  which is where a shared table or scratch buffer shows.
	// With have == nil results are compared with the reference at once, otherwise they are collected in have
	// (cold start: the reference is taken afterwards).
	byKind := map[string][]int{}
	var kindOrder []string
	for i, j := range jobs {
		if len(byKind[j.kind]) == 0 {
			kindOrder = append(kindOrder, j.kind)
		}
		byKind[j.kind] = append(byKind[j.kind], i)
	}
	runJob := func(i, g int, have [][]*raceDigest) {
		j := jobs[i]
		got := raceKinds[j.kind](j.seed)
		atomic.AddInt64(&runs, 1)
		atomic.AddInt64(perKind[j.kind], 1)
		if have != nil {
			mu.Lock()
			have[i] = append(have[i], got)
			mu.Unlock()
		} else if got.String() != want[i].String() {
			report(i, g, got)
		}
	}
	parallel := func(f func(g int)) {
		var wg sync.WaitGroup
		start := make(chan struct{})
		for g := 0; g < G; g++ {
			wg.Add(1)
			go func(g int) {
				defer wg.Done()
				<-start
				f(g)
			}(g)
		}
		close(start)
		wg.Wait()
	}
	round := func(have [][]*raceDigest, kindwise bool) {
		rounds++
		if kindwise {
			for _, k := range kindOrder {
				idx := byKind[k]
				parallel(func(g int) { runJob(idx[(g+rounds)%len(idx)], g, have) })
			}
			return
		}
		parallel(func(g int) {
			for i := (g + rounds) % G; i < len(jobs); i += G {
				runJob(i, g, have)
			}
		})
	}
	if *order == "after" {
		// cold start, step 0: the very first CONSTRUCTION of every kind of object happens on G goroutines at once, and
		// each goroutine then waits quietly at a rendezvous - a table built lazily by the first constructor call (and
		// guarded by nothing) is reported by the race detector only while the goroutine that built it is still alive
		// and has not buried the access under later work
		{
			var built sync.WaitGroup
			built.Add(G)
			parallel(func(g int) {
				switch g % 4 {
				case 0:
					c := &cpualt.CPU{}
					c.Init()
				case 1:
					b, _ := bus.New()
					_, _ = cpu65c816.New(b)
				case 2:
					_ = asm.NewEmitter(make([]byte, 16), true)
				case 3:
					c := &cpualt.CPU{}
					c.Init()
				}
				built.Done()
				built.Wait()
			})
		}
		// cold start: the very first use of the library in this process is concurrent
		first := make([][]*raceDigest, len(jobs))
		round(first, true)
		if rc := sequential(); rc != 0 {
			return rc
		}
		for i := range jobs {
			for _, got := range first[i] {
				if got.String() != want[i].String() {
					report(i, -1, got)
				}
			}
		}
	} else if rc := sequential(); rc != 0 {
		return rc
	}
	deadline := time.Now().Add(time.Duration(*secs * float64(time.Second)))
	for (time.Now().Before(deadline) || rounds == 0) && atomic.LoadInt64(&fails) == 0 {
		round(nil, rounds%3 == 2)
	}
	var ks []string
	for k, c := range perKind {
		if *c > 0 {
			ks = append(ks, fmt.Sprintf("%s=%d", k, *c))
		}
	}
	sort.Strings(ks)
	fmt.Printf("kinds %s\n", strings.Join(ks, " "))
	fmt.Printf("mix %s\n", strings.Join(mixDesc, ","))
	fmt.Printf("race: jobs=%d goroutines=%d rounds=%d runs=%d mismatches=%d sequential_s=%.2f gomaxprocs=%d order=%s\n",
		len(jobs), G, rounds, runs, fails, seqDur.Seconds(), runtime.GOMAXPROCS(0), *order)
	if fails > 0 {
		return 1
	}
	return 0
}

func init() {
	commands["race"] = raceCmd
	_ = os.Stderr
}
