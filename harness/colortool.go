package main

import (
	"fmt"
	"strings"
	"sync"

	"github.com/alttpo/snes/color15"
)

// (multiplicand, divisor) pairs used for the sampled MulDiv digest
func mdPairs() [][2]uint8 {
	var ps [][2]uint8
	ms := []uint8{0, 1, 2, 7, 8, 9, 15, 16, 30, 31, 32, 33, 64, 100, 128, 200, 254, 255}
	ds := []uint8{1, 2, 3, 7, 8, 9, 16, 30, 31, 32, 33, 64, 100, 128, 254, 255}
	for _, m := range ms {
		for _, d := range ds {
			ps = append(ps, [2]uint8{m, d})
		}
	}
	return ps
}

func colorDigests() {
	h := uint64(0)
	for c := uint32(0); c < 65536; c++ {
		r, g, b := color15.Color(c).ToRGB()
		h = mix(h, uint64(r)|uint64(g)<<8|uint64(b)<<16)
	}
	fmt.Printf("rgb %d\n", h)
	h = 0
	for c := uint32(0); c < 65536; c++ {
		h = mix(h, uint64(color15.Color(c).Luminosity()))
	}
	fmt.Printf("lum %d\n", h)
	var sb strings.Builder
	for b := 0; b < 256; b++ {
		h = 0
		for n := 0; n < 65536; n++ {
			h = mix(h, uint64(color15.ToColor15(uint8(n&255), uint8(n>>8), uint8(b))))
		}
		fmt.Fprintf(&sb, " %d", h)
	}
	fmt.Println("pack" + sb.String())
	sb.Reset()
	for _, p := range mdPairs() {
		h = 0
		for c := uint32(0); c < 65536; c++ {
			h = mix(h, uint64(color15.Color(c).MulDiv(p[0], p[1])))
		}
		fmt.Fprintf(&sb, " %d", h)
	}
	fmt.Println("muldiv" + sb.String())
	sb.Reset()
	for _, p := range mdPairs() {
		fmt.Fprintf(&sb, " %d", uint32(p[0])<<8|uint32(p[1]))
	}
	fmt.Println("pairs" + sb.String())
}

// colorCheck states C17 directly against the compiled functions over the whole domain.
func colorCheck() int {
	rc := 0
	report := func(ok bool, id string, n uint64, msg string) {
		if ok {
			fmt.Printf("OK %s %d\n", id, n)
		} else {
			fmt.Printf("FAIL %s %s\n", id, msg)
			rc = 1
		}
	}
	msg := ""
	for c := uint32(0); c < 65536 && msg == ""; c++ {
		r, g, b := color15.Color(c).ToRGB()
		if uint32(r) != c&31 || uint32(g) != (c>>5)&31 || uint32(b) != (c>>10)&31 {
			msg = fmt.Sprintf("input=c:%04x ToRGB=(%d,%d,%d)", c, r, g, b)
		} else if got := color15.ToColor15(r, g, b); uint32(got) != c&0x7FFF {
			msg = fmt.Sprintf("input=c:%04x pack(unpack)=%04x", c, got)
		}
	}
	report(msg == "", "C17.unpack_pack", 65536, msg)
	msg = ""
	for n := uint32(0); n < 1<<24 && msg == ""; n++ {
		r, g, b := uint8(n), uint8(n>>8), uint8(n>>16)
		c := color15.ToColor15(r, g, b)
		r2, g2, b2 := c.ToRGB()
		if r2 != r&31 || g2 != g&31 || b2 != b&31 || c >= 0x8000 {
			msg = fmt.Sprintf("input=rgb:%02x,%02x,%02x packed=%04x unpacked=(%d,%d,%d)", r, g, b, c, r2, g2, b2)
		}
	}
	report(msg == "", "C17.pack_unpack", 1<<24, msg)
	msg = ""
	for c := uint32(0); c < 65536 && msg == ""; c++ {
		r, g, b := color15.Color(c).ToRGB()
		if l := color15.Color(c).Luminosity(); uint32(l) != (uint32(r)+uint32(g)+uint32(b))/3 {
			msg = fmt.Sprintf("input=c:%04x luminosity=%d", c, l)
		}
	}
	report(msg == "", "C17.luminosity", 65536, msg)
	// MulDiv over the whole domain, sharded by multiplicand
	var mu sync.Mutex
	first := ""
	firstKey := uint64(1) << 62
	var wg sync.WaitGroup
	for w := 0; w < 16; w++ {
		wg.Add(1)
		go func(w int) {
			defer wg.Done()
			for m := w; m < 256; m += 16 {
				for d := 1; d < 256; d++ {
					for c := uint32(0); c < 65536; c++ {
						got := color15.Color(c).MulDiv(uint8(m), uint8(d))
						var want uint32
						for i := uint(0); i < 3; i++ {
							ch := (c >> (5 * i)) & 31
							q := ch * uint32(m) / uint32(d)
							if q > 31 {
								q = 31
							}
							want |= q << (5 * i)
						}
						if uint32(got) != want {
							key := uint64(c)<<16 | uint64(m)<<8 | uint64(d)
							mu.Lock()
							if key < firstKey {
								firstKey = key
								first = fmt.Sprintf("input=c:%04x,m:%d,d:%d MulDiv=%04x want=%04x", c, m, d, got, want)
							}
							mu.Unlock()
							goto next
						}
					}
				}
			next:
			}
		}(w)
	}
	wg.Wait()
	report(first == "", "C17.muldiv", 65536*256*255, first)
	return rc
}

func init() {
	commands["colordigest"] = func(args []string) int { colorDigests(); return 0 }
	commands["colorcheck"] = func(args []string) int { return colorCheck() }
	commands["coloreval"] = func(args []string) int {
		var c, m, d uint32
		fmt.Sscanf(args[0], "%x", &c)
		fmt.Sscanf(args[1], "%d", &m)
		fmt.Sscanf(args[2], "%d", &d)
		r, g, b := color15.Color(c).ToRGB()
		fmt.Printf("c=%04x ToRGB=(%d,%d,%d) MulDiv(%d,%d)=%04x Luminosity=%d\n", c, r, g, b, m, d, color15.Color(c).MulDiv(uint8(m), uint8(d)), color15.Color(c).Luminosity())
		return 0
	}
}
