package main

// C03 -- instruction encodings of *asm.Emitter.
//
//   enc list                      reflected method set of *asm.Emitter with parameter types
//   enc isa                       the harness's own WDC opcode matrix (cross-checked against Spec/EmitSpec.v)
//   enc digest <specfile>         tie: per method / flag state / progression, a rolling digest of
//                                 (panic | bytes, Len delta, PC delta, flag delta) over the operand enumeration;
//                                 Coq computes the same digest from the regenerated descriptors
//   enc probe <names...>          calls other exported methods with a callable signature, reports whether they emit
//   enc falsify <tier> [hints]    model-free statement of C03 against the real code, independent decoder +
//                                 DisassembleTo / Step of both CPUs
//   enc call <name> <flags> <args...>   one call (replay)

import (
	"bufio"
	"fmt"
	"os"
	"reflect"
	"sort"
	"strconv"
	"strings"
	"sync"

	"github.com/alttpo/snes/asm"
)

func init() { commands["enc"] = encMain }

// ---------------------------------------------------------------- reflection over the method set

type encPar int

const (
	epU8 encPar = iota
	epI8
	epU16
	epU32
	epFlags
	epLabel
	epOther
)

var encParName = []string{"TU8", "TI8", "TU16", "TU32", "TFlags", "TLabel", "other"}

func (p encPar) bits() uint {
	switch p {
	case epU8, epI8, epFlags:
		return 8
	case epU16:
		return 16
	case epU32:
		return 32
	}
	return 0
}

type encMethod struct {
	name     string
	pars     []encPar
	results  int
	callable bool // only uint8/int8/uint16/uint32/Flags/string parameters, no results
	bits     uint
}

func encMethods() []encMethod {
	t := reflect.TypeOf(&asm.Emitter{})
	var out []encMethod
	flagsT := reflect.TypeOf(asm.Flags(0))
	for i := 0; i < t.NumMethod(); i++ {
		m := t.Method(i)
		em := encMethod{name: m.Name, results: m.Type.NumOut(), callable: m.Type.NumOut() == 0 && !m.Type.IsVariadic()}
		for j := 1; j < m.Type.NumIn(); j++ {
			pt := m.Type.In(j)
			p := epOther
			switch {
			case pt == flagsT:
				p = epFlags
			case pt.PkgPath() != "":
				p = epOther
			case pt.Kind() == reflect.Uint8:
				p = epU8
			case pt.Kind() == reflect.Int8:
				p = epI8
			case pt.Kind() == reflect.Uint16:
				p = epU16
			case pt.Kind() == reflect.Uint32:
				p = epU32
			case pt.Kind() == reflect.String:
				p = epLabel
			}
			if p == epOther {
				em.callable = false
			}
			em.pars = append(em.pars, p)
			em.bits += p.bits()
		}
		out = append(out, em)
	}
	return out
}

func encFind(name string) *encMethod {
	for _, m := range encMethods() {
		if m.name == name {
			mm := m
			return &mm
		}
	}
	return nil
}

// argsOf: parameter j is the j-th digit of the call number n (first parameter least significant)
func (m *encMethod) argsOf(n uint64, out []int64) {
	for j, p := range m.pars {
		b := p.bits()
		if b == 0 {
			out[j] = 0
			continue
		}
		v := int64(n & ((1 << b) - 1))
		n >>= b
		if p == epI8 && v >= 128 {
			v -= 256
		}
		out[j] = v
	}
}

// ---------------------------------------------------------------- calling the real code

type encCaller struct {
	m              *encMethod
	buf            []byte
	text           bool
	em             *asm.Emitter
	fn             interface{}
	rv             reflect.Value
	nfresh, ncalls int
}

type encObs struct {
	panicked bool
	pmsg     string
	dirty    bool // state changed although the call panicked
	bytes    []byte
	dlen     int64
	dpc      int64
	flBefore uint8
	flAfter  uint8
}

func newEncCaller(m *encMethod, text bool) *encCaller {
	c := &encCaller{m: m, buf: make([]byte, 1<<15), text: text}
	c.fresh()
	return c
}

// bases of the successive emitters of one caller: the second and third put the first instructions across a bank end
// ($00FFFF -> $010000, $7EFFFF -> $7F0000), the fourth across the end of the 24-bit space: PC() is a linear address and
// must advance by exactly the instruction length there as well
var encBases = []uint32{0x008000, 0x00FFFB, 0x7EFFFD, 0xFFFFFC}

func (c *encCaller) fresh() {
	c.em = asm.NewEmitter(c.buf, c.text)
	c.em.SetBase(encBases[c.nfresh%len(encBases)])
	c.nfresh++
	c.rv = reflect.ValueOf(c.em).MethodByName(c.m.name)
	c.fn = c.rv.Interface()
}

func (c *encCaller) invoke(args []int64) {
	switch f := c.fn.(type) {
	case func():
		f()
	case func(uint8):
		f(uint8(args[0]))
	case func(int8):
		f(int8(args[0]))
	case func(uint16):
		f(uint16(args[0]))
	case func(uint32):
		f(uint32(args[0]))
	case func(asm.Flags):
		f(asm.Flags(args[0]))
	case func(string):
		f("L")
	case func(uint8, uint8):
		f(uint8(args[0]), uint8(args[1]))
	case func(uint8, uint8, uint8):
		f(uint8(args[0]), uint8(args[1]), uint8(args[2]))
	default:
		in := make([]reflect.Value, len(c.m.pars))
		for j, p := range c.m.pars {
			switch p {
			case epU8:
				in[j] = reflect.ValueOf(uint8(args[j]))
			case epI8:
				in[j] = reflect.ValueOf(int8(args[j]))
			case epU16:
				in[j] = reflect.ValueOf(uint16(args[j]))
			case epU32:
				in[j] = reflect.ValueOf(uint32(args[j]))
			case epFlags:
				in[j] = reflect.ValueOf(asm.Flags(args[j]))
			case epLabel:
				in[j] = reflect.ValueOf("L")
			}
		}
		c.rv.Call(in)
	}
}

func (c *encCaller) call(fl uint8, args []int64, o *encObs) {
	c.ncalls++
	if c.em.Len()+16 > len(c.buf) || (c.text && c.em.Len() > 2048) || c.ncalls == 2 || c.ncalls == 4 || c.ncalls == 6 {
		c.fresh() // the early refreshes walk every caller through all of encBases, however few calls it gets
	}
	em := c.em
	em.AssumeREP(0xFF)
	em.AssumeSEP(asm.Flags(fl))
	l0, pc0 := em.Len(), em.PC()
	o.flBefore = uint8(em.Flags())
	o.panicked, o.dirty, o.pmsg = false, false, ""
	func() {
		defer func() {
			if r := recover(); r != nil {
				o.panicked = true
				o.pmsg = fmt.Sprint(r)
			}
		}()
		c.invoke(args)
	}()
	l1, pc1 := em.Len(), em.PC()
	o.dlen = int64(l1 - l0)
	o.dpc = int64(pc1 - pc0)
	o.flAfter = uint8(em.Flags())
	if l1 >= l0 {
		o.bytes = em.Bytes()[l0:l1]
	} else {
		o.bytes = nil
	}
	if o.panicked && (l1 != l0 || pc1 != pc0 || o.flAfter != o.flBefore) {
		o.dirty = true
	}
}

// ---------------------------------------------------------------- tie digests

const encMask63 = (uint64(1) << 63) - 1

func encMix(h, v uint64) uint64 { return (h*1000003 + v + 1) & encMask63 }

func encMixObs(h uint64, o *encObs) uint64 {
	if o.panicked {
		if o.dirty {
			return encMix(h, 1000003)
		}
		return encMix(h, 1000001)
	}
	h = encMix(h, uint64(len(o.bytes)))
	for _, b := range o.bytes {
		h = encMix(h, uint64(b))
	}
	h = encMix(h, uint64(o.dlen)&encMask63)
	h = encMix(h, uint64(o.dpc)&encMask63)
	return encMix(h, uint64(o.flAfter^o.flBefore))
}

type encProg struct {
	start, step uint64
	k           uint
}

func parseProgs(fields []string) []encProg {
	var out []encProg
	for _, f := range fields {
		p := strings.Split(f, ":")
		if len(p) != 3 {
			panic("bad progression " + f)
		}
		a, _ := strconv.ParseUint(p[0], 10, 64)
		b, _ := strconv.ParseUint(p[1], 10, 64)
		k, _ := strconv.ParseUint(p[2], 10, 32)
		out = append(out, encProg{a, b, uint(k)})
	}
	return out
}

var encStates = []uint8{0x00, 0x10, 0x20, 0x30}

func encDigest(args []string) int {
	if len(args) != 1 {
		fmt.Fprintln(os.Stderr, "usage: enc digest <specfile>")
		return 2
	}
	f, err := os.Open(args[0])
	if err != nil {
		fmt.Fprintln(os.Stderr, err)
		return 2
	}
	defer f.Close()
	progs := map[uint][]encProg{}
	own := map[string][]encProg{}
	var names []string
	sc := bufio.NewScanner(f)
	sc.Buffer(make([]byte, 1<<20), 1<<20)
	for sc.Scan() {
		fl := strings.Fields(sc.Text())
		if len(fl) == 0 {
			continue
		}
		switch fl[0] {
		case "B":
			b, _ := strconv.ParseUint(fl[1], 10, 32)
			progs[uint(b)] = parseProgs(fl[2:])
		case "M":
			names = append(names, fl[1])
		case "X": // method with its own progressions
			names = append(names, fl[1])
			own[fl[1]] = parseProgs(fl[2:])
		}
	}
	type job struct {
		mi, si, pi int
	}
	type res struct {
		bits uint
		rows [][]uint64
		err  string
	}
	results := make([]res, len(names))
	var jobs []job
	ms := make([]*encMethod, len(names))
	mprogs := make([][]encProg, len(names))
	for i, n := range names {
		m := encFind(n)
		ms[i] = m
		if m == nil || !m.callable {
			results[i].err = "no callable method " + n
			continue
		}
		ps, ok := progs[m.bits]
		if o, has := own[n]; has {
			ps, ok = o, true
		}
		if !ok {
			results[i].err = fmt.Sprintf("no progressions for %d operand bits", m.bits)
			continue
		}
		mprogs[i] = ps
		results[i].bits = m.bits
		results[i].rows = make([][]uint64, len(encStates))
		for si := range encStates {
			results[i].rows[si] = make([]uint64, len(ps))
			for pi := range ps {
				jobs = append(jobs, job{i, si, pi})
			}
		}
	}
	var wg sync.WaitGroup
	ch := make(chan job)
	for w := 0; w < 16; w++ {
		wg.Add(1)
		go func() {
			defer wg.Done()
			for j := range ch {
				m := ms[j.mi]
				p := mprogs[j.mi][j.pi]
				c := newEncCaller(m, false)
				var o encObs
				av := make([]int64, len(m.pars))
				mask := uint64(1)<<m.bits - 1
				if m.bits == 0 {
					mask = 0
				}
				h := uint64(0)
				n := p.start
				cnt := uint64(1) << p.k
				for i := uint64(0); i < cnt; i++ {
					m.argsOf(n&mask, av)
					c.call(encStates[j.si], av, &o)
					h = encMixObs(h, &o)
					n += p.step
				}
				results[j.mi].rows[j.si][j.pi] = h
			}
		}()
	}
	for _, j := range jobs {
		ch <- j
	}
	close(ch)
	wg.Wait()
	w := bufio.NewWriter(os.Stdout)
	defer w.Flush()
	for i, n := range names {
		if results[i].err != "" {
			fmt.Fprintf(w, "E %s %s\n", n, results[i].err)
			continue
		}
		var pt []string
		for _, p := range ms[i].pars {
			pt = append(pt, encParName[p])
		}
		fmt.Fprintf(w, "T %s %d %s\n", n, results[i].bits, strings.Join(pt, ","))
		for si := range encStates {
			fmt.Fprintf(w, "D %s %d", n, encStates[si])
			for _, d := range results[i].rows[si] {
				fmt.Fprintf(w, " %d", d)
			}
			fmt.Fprintln(w)
		}
	}
	return 0
}

// ---------------------------------------------------------------- the WDC opcode matrix (independent decoder)

// written from the W65C816S data sheet, table of opcodes; mode names as in Spec/EmitSpec.v
var encISAText = `
BRK Imm8|ORA DpIndX|COP Imm8|ORA StackRel|TSB Dp|ORA Dp|ASL Dp|ORA DpIndLong|PHP Implied|ORA ImmM|ASL Acc|PHD Implied|TSB Abs|ORA Abs|ASL Abs|ORA Long
BPL Rel8|ORA DpIndY|ORA DpInd|ORA StackRelIndY|TRB Dp|ORA DpX|ASL DpX|ORA DpIndLongY|CLC Implied|ORA AbsY|INC Acc|TCS Implied|TRB Abs|ORA AbsX|ASL AbsX|ORA LongX
JSR Abs|AND DpIndX|JSL Long|AND StackRel|BIT Dp|AND Dp|ROL Dp|AND DpIndLong|PLP Implied|AND ImmM|ROL Acc|PLD Implied|BIT Abs|AND Abs|ROL Abs|AND Long
BMI Rel8|AND DpIndY|AND DpInd|AND StackRelIndY|BIT DpX|AND DpX|ROL DpX|AND DpIndLongY|SEC Implied|AND AbsY|DEC Acc|TSC Implied|BIT AbsX|AND AbsX|ROL AbsX|AND LongX
RTI Implied|EOR DpIndX|WDM Imm8|EOR StackRel|MVP BlockMove|EOR Dp|LSR Dp|EOR DpIndLong|PHA Implied|EOR ImmM|LSR Acc|PHK Implied|JMP Abs|EOR Abs|LSR Abs|EOR Long
BVC Rel8|EOR DpIndY|EOR DpInd|EOR StackRelIndY|MVN BlockMove|EOR DpX|LSR DpX|EOR DpIndLongY|CLI Implied|EOR AbsY|PHY Implied|TCD Implied|JML Long|EOR AbsX|LSR AbsX|EOR LongX
RTS Implied|ADC DpIndX|PER Rel16|ADC StackRel|STZ Dp|ADC Dp|ROR Dp|ADC DpIndLong|PLA Implied|ADC ImmM|ROR Acc|RTL Implied|JMP AbsInd|ADC Abs|ROR Abs|ADC Long
BVS Rel8|ADC DpIndY|ADC DpInd|ADC StackRelIndY|STZ DpX|ADC DpX|ROR DpX|ADC DpIndLongY|SEI Implied|ADC AbsY|PLY Implied|TDC Implied|JMP AbsIndX|ADC AbsX|ROR AbsX|ADC LongX
BRA Rel8|STA DpIndX|BRL Rel16|STA StackRel|STY Dp|STA Dp|STX Dp|STA DpIndLong|DEY Implied|BIT ImmM|TXA Implied|PHB Implied|STY Abs|STA Abs|STX Abs|STA Long
BCC Rel8|STA DpIndY|STA DpInd|STA StackRelIndY|STY DpX|STA DpX|STX DpY|STA DpIndLongY|TYA Implied|STA AbsY|TXS Implied|TXY Implied|STZ Abs|STA AbsX|STZ AbsX|STA LongX
LDY ImmX|LDA DpIndX|LDX ImmX|LDA StackRel|LDY Dp|LDA Dp|LDX Dp|LDA DpIndLong|TAY Implied|LDA ImmM|TAX Implied|PLB Implied|LDY Abs|LDA Abs|LDX Abs|LDA Long
BCS Rel8|LDA DpIndY|LDA DpInd|LDA StackRelIndY|LDY DpX|LDA DpX|LDX DpY|LDA DpIndLongY|CLV Implied|LDA AbsY|TSX Implied|TYX Implied|LDY AbsX|LDA AbsX|LDX AbsY|LDA LongX
CPY ImmX|CMP DpIndX|REP Imm8|CMP StackRel|CPY Dp|CMP Dp|DEC Dp|CMP DpIndLong|INY Implied|CMP ImmM|DEX Implied|WAI Implied|CPY Abs|CMP Abs|DEC Abs|CMP Long
BNE Rel8|CMP DpIndY|CMP DpInd|CMP StackRelIndY|PEI DpInd|CMP DpX|DEC DpX|CMP DpIndLongY|CLD Implied|CMP AbsY|PHX Implied|STP Implied|JML AbsIndLong|CMP AbsX|DEC AbsX|CMP LongX
CPX ImmX|SBC DpIndX|SEP Imm8|SBC StackRel|CPX Dp|SBC Dp|INC Dp|SBC DpIndLong|INX Implied|SBC ImmM|NOP Implied|XBA Implied|CPX Abs|SBC Abs|INC Abs|SBC Long
BEQ Rel8|SBC DpIndY|SBC DpInd|SBC StackRelIndY|PEA Imm16|SBC DpX|INC DpX|SBC DpIndLongY|SED Implied|SBC AbsY|PLX Implied|XCE Implied|JSR AbsIndX|SBC AbsX|INC AbsX|SBC LongX
`

type encOp struct{ mn, mode string }

var encISA [256]encOp

func init() {
	i := 0
	for _, line := range strings.Split(strings.TrimSpace(encISAText), "\n") {
		for _, e := range strings.Split(line, "|") {
			f := strings.Fields(e)
			encISA[i] = encOp{f[0], f[1]}
			i++
		}
	}
	if i != 256 {
		panic("enc: opcode matrix incomplete")
	}
}

func encOpSize(mode string, m16, x16 bool) int {
	switch mode {
	case "Implied", "Acc":
		return 0
	case "ImmM":
		if m16 {
			return 2
		}
		return 1
	case "ImmX":
		if x16 {
			return 2
		}
		return 1
	case "Imm8", "Dp", "DpX", "DpY", "DpIndX", "DpInd", "DpIndLong", "DpIndY", "DpIndLongY", "Rel8", "StackRel", "StackRelIndY":
		return 1
	case "Imm16", "Abs", "AbsX", "AbsY", "AbsIndX", "AbsInd", "AbsIndLong", "BlockMove", "Rel16":
		return 2
	case "Long", "LongX":
		return 3
	}
	panic("mode " + mode)
}

func encMnEq(a, b string) bool {
	if a == b {
		return true
	}
	al := func(x, y string) bool { return (a == x && b == y) || (a == y && b == x) }
	return al("JMP", "JML") || al("JSR", "JSL")
}

func encHasMode(mn, mode string) bool {
	for _, e := range encISA {
		if e.mn == mn && e.mode == mode {
			return true
		}
	}
	return false
}

func encHasModeAlias(mn, mode string) bool {
	for _, e := range encISA {
		if encMnEq(mn, e.mn) && e.mode == mode {
			return true
		}
	}
	return false
}

// decode: first instruction of bs under the given widths -> mnemonic, mode, operand, length
func encDecode(m16, x16 bool, bs []byte) (mn, mode string, operand uint32, length int, ok bool) {
	if len(bs) == 0 {
		return
	}
	e := encISA[bs[0]]
	n := encOpSize(e.mode, m16, x16)
	if len(bs)-1 < n {
		return
	}
	for i := n; i >= 1; i-- {
		operand = operand<<8 | uint32(bs[i])
	}
	return e.mn, e.mode, operand, 1 + n, true
}

// ---------------------------------------------------------------- the method-name convention (Go statement)

type encMeaning struct {
	mn, mode string
	lay      string // none | val | split | block | label
	n        int
	w        string // any | m8 | m16 | x8 | x16
}

func encParsEq(a []encPar, b ...encPar) bool {
	if len(a) != len(b) {
		return false
	}
	for i := range a {
		if a[i] != b[i] {
			return false
		}
	}
	return true
}

func encLayFor(n int, ps []encPar) (string, bool) {
	switch {
	case n == 0 && len(ps) == 0:
		return "none", true
	case n >= 1 && encParsEq(ps, epLabel):
		return "label", true
	case n == 1 && (encParsEq(ps, epU8) || encParsEq(ps, epI8) || encParsEq(ps, epFlags)):
		return "val", true
	case n == 2 && encParsEq(ps, epU16):
		return "val", true
	case n == 3 && encParsEq(ps, epU32):
		return "val", true
	}
	return "", false
}

func encMeaningOf(name string, ps []encPar) (encMeaning, bool) {
	mn, suf := name, ""
	if i := strings.Index(name, "_"); i >= 0 {
		mn, suf = name[:i], name[i+1:]
	}
	plain := func(mode string) (encMeaning, bool) {
		if !encHasModeAlias(mn, mode) {
			return encMeaning{}, false
		}
		n := encOpSize(mode, true, true)
		lay, ok := encLayFor(n, ps)
		if !ok {
			return encMeaning{}, false
		}
		return encMeaning{mn, mode, lay, n, "any"}, true
	}
	immMode := ""
	if encHasMode(mn, "ImmM") {
		immMode = "ImmM"
	} else if encHasMode(mn, "ImmX") {
		immMode = "ImmX"
	}
	imm := func(n int, lay string, want []encPar) (encMeaning, bool) {
		if immMode == "" || !encParsEq(ps, want...) {
			return encMeaning{}, false
		}
		w := "m"
		if immMode == "ImmX" {
			w = "x"
		}
		if n == 1 {
			w += "8"
		} else {
			w += "16"
		}
		return encMeaning{mn, immMode, lay, n, w}, true
	}
	switch suf {
	case "":
		switch {
		case encHasMode(mn, "Acc"):
			return plain("Acc")
		case encHasMode(mn, "Rel8"):
			return plain("Rel8")
		case mn == "JSL" || mn == "JML":
			return plain("Long")
		case encHasMode(mn, "BlockMove"):
			if encParsEq(ps, epU8, epU8) {
				return encMeaning{mn, "BlockMove", "block", 2, "any"}, true
			}
			return encMeaning{}, false
		case mn == "BRK":
			return encMeaning{}, false
		case encHasMode(mn, "Imm8"):
			return plain("Imm8")
		case encHasMode(mn, "Implied"):
			return plain("Implied")
		}
		return encMeaning{}, false
	case "imm8_b":
		return imm(1, "val", []encPar{epU8})
	case "imm16_w":
		return imm(2, "val", []encPar{epU16})
	case "imm16_lh":
		return imm(2, "split", []encPar{epU8, epU8})
	case "imm8":
		if encHasMode(mn, "Rel8") {
			return plain("Rel8")
		}
		if encHasMode(mn, "Imm8") {
			return plain("Imm8")
		}
		return encMeaning{}, false
	case "abs":
		return plain("Abs")
	case "abs_x":
		return plain("AbsX")
	case "abs_y":
		return plain("AbsY")
	case "dp":
		return plain("Dp")
	case "dp_x":
		return plain("DpX")
	case "dp_y":
		return plain("DpY")
	case "long":
		return plain("Long")
	case "long_x":
		return plain("LongX")
	case "lhb":
		if encParsEq(ps, epU8, epU8, epU8) && encHasModeAlias(mn, "Long") {
			return encMeaning{mn, "Long", "split", 3, "any"}, true
		}
		return encMeaning{}, false
	case "indirect":
		if encHasMode(mn, "AbsInd") {
			return plain("AbsInd")
		}
		return plain("DpInd")
	case "indirect_x":
		if encHasMode(mn, "AbsIndX") {
			return plain("AbsIndX")
		}
		return plain("DpIndX")
	case "indirect_y":
		return plain("DpIndY")
	case "indirect_long":
		if encHasMode(mn, "AbsIndLong") || mn == "JMP" {
			return plain("AbsIndLong")
		}
		return plain("DpIndLong")
	case "indirect_long_y":
		return plain("DpIndLongY")
	case "sr":
		return plain("StackRel")
	case "sr_y":
		return plain("StackRelIndY")
	}
	return encMeaning{}, false
}

func encIsMnemonic(mn string) bool {
	for _, e := range encISA {
		if e.mn == mn {
			return true
		}
	}
	return false
}

// ---------------------------------------------------------------- the library's own CPUs as decoders

type encCpuDec struct {
	name   string
	nbytes int
	bytes  []byte
	groups []uint32 // hex groups after '$' in the operand text
	raw    string
}

func encParseDis(line string, sep string) (encCpuDec, bool) {
	var d encCpuDec
	d.raw = line
	f := strings.Split(line, sep)
	if len(f) < 3 {
		return d, false
	}
	for _, h := range strings.Fields(f[1]) {
		v, err := strconv.ParseUint(h, 16, 8)
		if err != nil {
			return d, false
		}
		d.bytes = append(d.bytes, byte(v))
	}
	d.nbytes = len(d.bytes)
	txt := strings.TrimLeft(f[2], " ")
	if len(txt) < 3 {
		return d, false
	}
	d.name = strings.ToUpper(txt[:3])
	op := strings.TrimLeft(txt[3:], " ")
	if i := strings.Index(op, " ($"); i >= 0 { // rel8: "$fe ($80fe -)"
		op = op[:i]
	}
	for i := 0; i < len(op); i++ {
		if op[i] == '$' {
			j := i + 1
			for j < len(op) && strings.IndexByte("0123456789abcdefABCDEF", op[j]) >= 0 {
				j++
			}
			if j > i+1 {
				v, _ := strconv.ParseUint(op[i+1:j], 16, 32)
				d.groups = append(d.groups, uint32(v))
			}
			i = j - 1
		}
	}
	return d, true
}

type encCpus struct {
	r65 *run65
	ra  *runAlt
}

func newEncCpus() *encCpus { return &encCpus{newRun65(), newRunAlt()} }

func (c *encCpus) load(bs []byte, m16, x16 bool) {
	ov := map[uint32]byte{}
	for i, b := range bs {
		ov[0x008000+uint32(i)] = b
	}
	for i := len(bs); i < 8; i++ {
		ov[0x008000+uint32(i)] = 0xEA
	}
	bit := func(w16 bool) byte {
		if w16 {
			return 0
		}
		return 1
	}
	c.r65.mem.seed, c.r65.mem.ov, c.r65.mem.trace = 1, ov, nil
	ov2 := map[uint32]byte{}
	for k, v := range ov {
		ov2[k] = v
	}
	c.ra.mem.seed, c.ra.mem.ov, c.ra.mem.trace = 1, ov2, nil
	c65, ca := c.r65.cpu, c.ra.cpu
	c65.E, c65.M, c65.X, c65.D, c65.RK, c65.PC, c65.SP, c65.RDBR = 0, bit(m16), bit(x16), 0, 0, 0x8000, 0x01F0, 0
	c65.Interrupt = 0
	c65.OnPC, c65.OnWDM = nil, nil
	ca.E, ca.M, ca.X, ca.D, ca.RK, ca.PC, ca.SP, ca.RDBR = 0, bit(m16), bit(x16), 0, 0, 0x8000, 0x01F0, 0
	ca.Interrupt = 0
	ca.OnPC, ca.OnWDM = nil, nil
}

func (c *encCpus) disasm() (d65, da encCpuDec, ok65, oka bool) {
	out := c.r65.cpu.DisassembleTo(0x8000, nil)
	d65, ok65 = encParseDis(string(out), "|")
	var sb strings.Builder
	c.ra.cpu.DisassembleTo(0x8000, &sb)
	da, oka = encParseDis(sb.String(), "│")
	return
}

// step both CPUs once; returns PC deltas (-1 on panic)
func (c *encCpus) step() (int, int) {
	one := func(f func()) (ok bool) {
		defer func() {
			if recover() != nil {
				ok = false
			}
		}()
		f()
		return true
	}
	d65, da := -1, -1
	if one(func() { c.r65.cpu.Step() }) {
		d65 = int(c.r65.cpu.PC) - 0x8000
	}
	if one(func() { c.ra.cpu.Step() }) {
		da = int(c.ra.cpu.PC) - 0x8000
	}
	return d65, da
}

var encNoStep = map[string]bool{"JMP": true, "JML": true, "JSR": true, "JSL": true, "RTS": true, "RTL": true, "RTI": true,
	"BRK": true, "COP": true, "MVN": true, "MVP": true, "STP": true, "WAI": true, "BRL": true, "XCE": true,
	"BPL": true, "BMI": true, "BVC": true, "BVS": true, "BRA": true, "BCC": true, "BCS": true, "BNE": true, "BEQ": true, "PER": true}

// ---------------------------------------------------------------- falsifier

type encFail struct {
	method string
	fl     uint8
	args   []int64
	what   string
}

func (f encFail) String() string {
	var a []string
	for _, v := range f.args {
		a = append(a, strconv.FormatInt(v, 10))
	}
	return fmt.Sprintf("FAIL C03 method=%s flags=%d args=%s :: %s", f.method, f.fl, strings.Join(a, ","), f.what)
}

// expected operand from the arguments (block move: destination bank first unless hinted "sd")
func encOperand(mg encMeaning, m *encMethod, args []int64, blockSD bool) uint32 {
	switch mg.lay {
	case "val":
		return uint32(uint64(args[0]) & (uint64(1)<<(8*uint(mg.n)) - 1))
	case "split":
		v := uint32(0)
		for i := mg.n - 1; i >= 0; i-- {
			v = v<<8 | uint32(uint8(args[i]))
		}
		return v
	case "block":
		d, s := args[0], args[1]
		if blockSD {
			d, s = args[1], args[0]
		}
		return uint32(uint8(d)) | uint32(uint8(s))<<8
	}
	return 0
}

func encWrong(w string, m16, x16 bool) bool {
	switch w {
	case "m8":
		return m16
	case "m16":
		return !m16
	case "x8":
		return x16
	case "x16":
		return !x16
	}
	return false
}

// checkCall states C03 for one call; returns a description of the violation or "".
func encCheckCall(m *encMethod, mg encMeaning, conv bool, fl uint8, args []int64, o *encObs, blockSD bool) string {
	m16, x16 := fl&0x20 == 0, fl&0x10 == 0
	mnName := m.name
	if i := strings.Index(mnName, "_"); i >= 0 {
		mnName = mnName[:i]
	}
	if conv {
		wrong := encWrong(mg.w, m16, x16)
		if o.panicked != wrong {
			if wrong {
				return fmt.Sprintf("accepted under the wrong tracked width (needs %s); emitted % x", mg.w, o.bytes)
			}
			return "refused under a legal tracked width: " + o.pmsg
		}
	}
	if o.panicked {
		if o.dirty {
			return "panicked but changed Len/PC/flags"
		}
		return ""
	}
	dm, dmode, dop, dlen, ok := encDecode(m16, x16, o.bytes)
	if !ok {
		return fmt.Sprintf("emitted bytes % x do not decode as one instruction", o.bytes)
	}
	if dlen != len(o.bytes) {
		return fmt.Sprintf("emitted %d bytes % x but %s %s is %d bytes long", len(o.bytes), o.bytes, dm, dmode, dlen)
	}
	if o.dlen != int64(dlen) || o.dpc != int64(dlen) {
		return fmt.Sprintf("Len advanced by %d, PC by %d, architectural length of %s %s is %d", o.dlen, o.dpc, dm, dmode, dlen)
	}
	if !encMnEq(mnName, dm) {
		return fmt.Sprintf("bytes % x decode as %s %s, method is named after %s", o.bytes, dm, dmode, mnName)
	}
	if conv {
		if dmode != mg.mode {
			return fmt.Sprintf("bytes % x decode as %s %s, the name means mode %s", o.bytes, dm, dmode, mg.mode)
		}
		if mg.lay != "label" {
			want := encOperand(mg, m, args, blockSD)
			if dop != want {
				return fmt.Sprintf("bytes % x decode to operand $%x, the arguments give $%x", o.bytes, dop, want)
			}
		}
		wantFl := fl
		if mnName == "REP" {
			wantFl = fl &^ uint8(args[0])
		} else if mnName == "SEP" {
			wantFl = fl | uint8(args[0])
		}
		if o.flAfter != wantFl {
			return fmt.Sprintf("tracked flags after the call are $%02x, expected $%02x", o.flAfter, wantFl)
		}
	}
	return ""
}

// cross-check with both CPUs' disassemblers (and Step for instructions that fall through)
func encCheckCpus(cp *encCpus, m *encMethod, fl uint8, o *encObs) string {
	m16, x16 := fl&0x20 == 0, fl&0x10 == 0
	dm, dmode, dop, dlen, ok := encDecode(m16, x16, o.bytes)
	if !ok {
		return ""
	}
	cp.load(o.bytes, m16, x16)
	d65, da, ok65, oka := cp.disasm()
	for i, d := range []encCpuDec{d65, da} {
		who := []string{"cpu65c816", "cpualt"}[i]
		if (i == 0 && !ok65) || (i == 1 && !oka) {
			return who + ": disassembly not understood: " + d.raw
		}
		if d.nbytes != dlen {
			return fmt.Sprintf("%s takes %d bytes for % x, architectural length is %d", who, d.nbytes, o.bytes, dlen)
		}
		for j := range d.bytes {
			if d.bytes[j] != o.bytes[j] {
				return fmt.Sprintf("%s read % x, emitted % x", who, d.bytes, o.bytes)
			}
		}
		if !encMnEq(dm, d.name) {
			return fmt.Sprintf("%s names % x %s, WDC %s", who, o.bytes, d.name, dm)
		}
		if dlen > 1 && dmode != "Rel16" {
			var got uint32
			switch {
			case dmode == "BlockMove" && len(d.groups) == 2:
				got = d.groups[1] | d.groups[0]<<8 // printed source,destination
			case len(d.groups) >= 1:
				got = d.groups[0]
			default:
				return fmt.Sprintf("%s prints no operand for % x: %s", who, o.bytes, d.raw)
			}
			if got != dop {
				return fmt.Sprintf("%s prints operand $%x for % x, WDC operand $%x", who, got, o.bytes, dop)
			}
		}
	}
	if !encNoStep[dm] {
		s65, sa := cp.step()
		if s65 != dlen || sa != dlen {
			return fmt.Sprintf("Step advanced PC by %d (cpu65c816) / %d (cpualt) over % x, architectural length %d", s65, sa, o.bytes, dlen)
		}
	}
	return ""
}

// operand numbers to visit for a method with B operand bits
func encEnum(bits uint, thorough bool, seed uint64, visit0 func(n uint64, primary bool)) {
	primary := true
	visit := func(n uint64) { visit0(n, primary) }
	switch {
	case bits == 0:
		visit(0)
	case bits <= 16:
		for n := uint64(0); n < 1<<bits; n++ {
			visit(n)
		}
	default:
		mask := uint64(1)<<bits - 1
		if thorough {
			for n := uint64(0); n < 1<<24; n++ {
				visit(n)
			}
		} else {
			for n := uint64(0); n < 1<<16; n++ {
				visit((n * 257) & mask)
			}
		}
		primary = false // revisits and random values: not counted as distinct
		for _, b := range []uint64{0, 0xFF, 0x100, 0xFFFF, 0x10000, 0x7FFFFF, 0x800000, 0xFFFFFF, 0x123456, 0xFEDCBA} {
			for d := uint64(0); d < 4; d++ {
				visit((b + d) & mask)
				visit((b - d) & mask)
			}
		}
		if bits > 24 { // garbage in the high byte of the uint32
			r := cpuRng{s: seed*2654435761 + 12345}
			for i := 0; i < 1<<14; i++ {
				visit(r.next() & mask)
			}
			for _, hi := range []uint64{0x01, 0x7F, 0x80, 0xFF} {
				for n := uint64(0); n < 1<<12; n++ {
					visit((hi<<24 | n*4099) & mask)
				}
			}
		}
	}
}

func encFalsify(args []string) int {
	thorough := len(args) > 0 && args[0] == "thorough"
	seed := uint64(1)
	if s := os.Getenv("VERIF_SEED"); s != "" {
		if v, err := strconv.ParseUint(s, 10, 64); err == nil {
			seed = v
		}
	}
	blockSD := map[string]bool{}
	for _, a := range args {
		if strings.HasPrefix(a, "blocksd=") {
			for _, n := range strings.Split(a[8:], ",") {
				blockSD[n] = true
			}
		}
	}
	ms := encMethods()
	type result struct {
		fails      []encFail
		calls      int64
		nontrivial int64
		cpuChecks  int64
		conv       bool
		candidate  bool
		mg         encMeaning
		ops        map[byte]bool
	}
	results := make([]result, len(ms))
	var wg sync.WaitGroup
	sem := make(chan struct{}, 16)
	for i := range ms {
		m := &ms[i]
		mn := m.name
		if j := strings.Index(mn, "_"); j >= 0 {
			mn = mn[:j]
		}
		if !m.callable || !encIsMnemonic(mn) {
			continue
		}
		results[i].candidate = true
		wg.Add(1)
		sem <- struct{}{}
		go func(i int, m *encMethod) {
			defer wg.Done()
			defer func() { <-sem }()
			r := &results[i]
			r.ops = map[byte]bool{}
			mg, conv := encMeaningOf(m.name, m.pars)
			r.conv, r.mg = conv, mg
			c := newEncCaller(m, false)
			ct := newEncCaller(m, true)
			cp := newEncCpus()
			var o, ot encObs
			av := make([]int64, len(m.pars))
			for _, fl := range encStates {
				k := 0
				encEnum(m.bits, thorough, seed, func(n uint64, primary bool) {
					m.argsOf(n, av)
					c.call(fl, av, &o)
					r.calls++
					if !o.panicked && len(o.bytes) > 0 {
						r.ops[o.bytes[0]] = true
					}
					if primary && (o.panicked || len(o.bytes) > 1) {
						r.nontrivial++
					}
					fail := encCheckCall(m, mg, conv, fl, av, &o, blockSD[m.name])
					k++
					sampled := m.bits <= 8 || k%509 == 1 || n < 4 || n+4 >= uint64(1)<<m.bits
					if fail == "" && sampled && !o.panicked {
						// same bytes with listing generation on
						ct.call(fl, av, &ot)
						if ot.panicked || string(ot.bytes) != string(o.bytes) || ot.dlen != o.dlen || ot.dpc != o.dpc {
							fail = fmt.Sprintf("with generateText the call gives % x (panic=%v), without % x", ot.bytes, ot.panicked, o.bytes)
						}
						if fail == "" {
							fail = encCheckCpus(cp, m, fl, &o)
							r.cpuChecks++
						}
					}
					if fail != "" && len(r.fails) < 3 {
						r.fails = append(r.fails, encFail{m.name, fl, append([]int64(nil), av...), fail})
					}
				})
			}
		}(i, m)
	}
	wg.Wait()
	w := bufio.NewWriter(os.Stdout)
	defer w.Flush()
	nfail := 0
	var calls, nontriv, cpuc int64
	for i, m := range ms {
		r := &results[i]
		if !r.candidate {
			continue
		}
		calls += r.calls
		nontriv += r.nontrivial
		cpuc += r.cpuChecks
		kind := "unconventional"
		if r.conv {
			kind = fmt.Sprintf("%s/%s/%s%d/%s", r.mg.mn, r.mg.mode, r.mg.lay, r.mg.n, r.mg.w)
		}
		var ops []string
		for op := range r.ops {
			ops = append(ops, fmt.Sprintf("%02x", op))
		}
		sort.Strings(ops)
		fmt.Fprintf(w, "METHOD %s %s calls=%d opcodes=%s\n", m.name, kind, r.calls, strings.Join(ops, ","))
		for _, f := range r.fails {
			fmt.Fprintln(w, f.String())
			nfail++
		}
	}
	fmt.Fprintf(w, "SUMMARY calls=%d nontrivial=%d cpu_checks=%d fails=%d\n", calls, nontriv, cpuc, nfail)
	return 0
}

// ---------------------------------------------------------------- small commands

func encProbe(names []string) int {
	for _, n := range names {
		m := encFind(n)
		if m == nil {
			fmt.Printf("PROBE %s missing\n", n)
			continue
		}
		if !m.callable {
			fmt.Printf("PROBE %s not-callable\n", n)
			continue
		}
		emitted := false
		for _, text := range []bool{false, true} {
			c := newEncCaller(m, text)
			var o encObs
			av := make([]int64, len(m.pars))
			for _, fl := range encStates {
				for _, n := range []uint64{0, 1, 0x7F, 0x80, 0xFF, 0x1234, 0xFFFF, 0x808000, 0xFFFFFFFF} {
					mask := uint64(1)<<m.bits - 1
					if m.bits == 0 {
						mask = 0
					}
					m.argsOf(n&mask, av)
					c.call(fl, av, &o)
					if o.dlen != 0 {
						emitted = true
					}
				}
			}
		}
		fmt.Printf("PROBE %s emitted=%v\n", n, emitted)
	}
	return 0
}

func encCall(args []string) int {
	if len(args) < 2 {
		fmt.Fprintln(os.Stderr, "usage: enc call <name> <flags> <args...>")
		return 2
	}
	m := encFind(args[0])
	if m == nil || !m.callable {
		fmt.Println("no callable method", args[0])
		return 1
	}
	fl, _ := strconv.ParseUint(args[1], 0, 8)
	av := make([]int64, len(m.pars))
	for i := range av {
		if 2+i < len(args) {
			av[i], _ = strconv.ParseInt(args[2+i], 0, 64)
		}
	}
	c := newEncCaller(m, false)
	var o encObs
	c.call(uint8(fl), av, &o)
	mg, conv := encMeaningOf(m.name, m.pars)
	fmt.Printf("call %s flags=$%02x args=%v -> panicked=%v %q bytes=[% x] dLen=%d dPC=%d flags_after=$%02x\n",
		m.name, fl, av, o.panicked, o.pmsg, o.bytes, o.dlen, o.dpc, o.flAfter)
	if conv {
		fmt.Printf("name means: %s %s operand-layout=%s%d width=%s\n", mg.mn, mg.mode, mg.lay, mg.n, mg.w)
	} else {
		fmt.Println("name is outside the convention (mnemonic/length/round-trip check only)")
	}
	blockSD := len(args) > 2+len(av) && args[2+len(av)] == "sd"
	fail := encCheckCall(m, mg, conv, uint8(fl), av, &o, blockSD)
	if fail == "" && !o.panicked {
		fail = encCheckCpus(newEncCpus(), m, uint8(fl), &o)
	}
	if fail != "" {
		fmt.Println(encFail{m.name, uint8(fl), av, fail}.String())
		return 1
	}
	fmt.Println("C03 holds for this call")
	return 0
}

func encMain(args []string) int {
	if len(args) == 0 {
		fmt.Fprintln(os.Stderr, "usage: enc list|isa|digest|probe|falsify|call ...")
		return 2
	}
	switch args[0] {
	case "list":
		for _, m := range encMethods() {
			var pt []string
			for _, p := range m.pars {
				pt = append(pt, encParName[p])
			}
			fmt.Printf("%s %v %d %s\n", m.name, m.callable, m.bits, strings.Join(pt, ","))
		}
		return 0
	case "isa":
		for i, e := range encISA {
			fmt.Printf("%d %s %s\n", i, e.mn, e.mode)
		}
		return 0
	case "digest":
		return encDigest(args[1:])
	case "probe":
		return encProbe(args[1:])
	case "falsify":
		return encFalsify(args[1:])
	case "call":
		return encCall(args[1:])
	}
	fmt.Fprintln(os.Stderr, "unknown enc command", args[0])
	return 2
}
