package main

// C09 harness: runs the REAL header code (snes.Header.ReadHeader/WriteHeader, snes.NewROM,
// ROM.ReadHeader/WriteHeader) on structured cases and prints inputs + observed projections
// (hdrcases: the tie, checked inside Coq against Model/Header.v), and states the property directly on
// the real code (hdrcheck: the falsifier; hdrreplay re-runs one clause on one input).
//
// The exported fields of Header are observed through reflection, flattened exactly as
// readBinaryStruct + encoding/binary lay them out (top-level exported fields in order, arrays and
// nested structs expanded) -- the same order as Gen/GenHeader.v.

import (
	"bytes"
	"encoding/hex"
	"fmt"
	"os"
	"reflect"
	"sort"
	"strconv"
	"strings"

	snes "github.com/alttpo/snes"
)

// ---------------------------------------------------------------- PRNG (single stream, from the seed)
type hdrRng struct{ s uint64 }

func (r *hdrRng) next() uint64 {
	r.s += 0x9E3779B97F4A7C15
	z := r.s
	z = (z ^ (z >> 30)) * 0xBF58476D1CE4E5B9
	z = (z ^ (z >> 27)) * 0x94D049BB133111EB
	return z ^ (z >> 31)
}
func (r *hdrRng) n(k int) int { return int(r.next() % uint64(k)) }
func (r *hdrRng) b() byte     { return byte(r.next()) }

// ---------------------------------------------------------------- reflection view of Header
type hdrLeaf struct {
	path string
	v    reflect.Value
	size int
	tag  int64 // documented cartridge address, -1 if none
}

func hdrTag(sf reflect.StructField) int64 {
	s, ok := sf.Tag.Lookup("rom")
	if !ok {
		return -1
	}
	n, err := strconv.ParseInt(s, 16, 64)
	if err != nil {
		return -1
	}
	return n
}

func hdrFlattenVal(v reflect.Value, path string, tag int64, out *[]hdrLeaf) {
	switch v.Kind() {
	case reflect.Uint8, reflect.Uint16, reflect.Uint32, reflect.Uint64:
		*out = append(*out, hdrLeaf{path, v, int(v.Type().Size()), tag})
	case reflect.Array:
		es := int64(v.Type().Elem().Size())
		for i := 0; i < v.Len(); i++ {
			t := int64(-1)
			if tag >= 0 {
				t = tag + int64(i)*es
			}
			hdrFlattenVal(v.Index(i), fmt.Sprintf("%s[%d]", path, i), t, out)
		}
	case reflect.Struct:
		for i := 0; i < v.NumField(); i++ {
			sf := v.Type().Field(i)
			if sf.PkgPath != "" || sf.Name == "_" {
				continue
			}
			hdrFlattenVal(v.Field(i), path+"."+sf.Name, hdrTag(sf), out)
		}
	default:
		panic("hdrtool: unsupported header field kind " + v.Kind().String() + " at " + path)
	}
}

func hdrFlatten(h *snes.Header) []hdrLeaf {
	var out []hdrLeaf
	v := reflect.ValueOf(h).Elem()
	for i := 0; i < v.NumField(); i++ {
		sf := v.Type().Field(i)
		if sf.PkgPath != "" {
			continue
		}
		hdrFlattenVal(v.Field(i), sf.Name, hdrTag(sf), &out)
	}
	return out
}

func hdrValues(h *snes.Header) []uint64 {
	ls := hdrFlatten(h)
	vs := make([]uint64, len(ls))
	for i, l := range ls {
		vs[i] = l.v.Uint()
	}
	return vs
}

func hdrSetValues(h *snes.Header, vs []uint64) {
	for i, l := range hdrFlatten(h) {
		if i < len(vs) {
			l.v.SetUint(vs[i])
		}
	}
}

func hdrJoin(vs []uint64) string {
	if len(vs) == 0 {
		return "-"
	}
	s := make([]string, len(vs))
	for i, v := range vs {
		s[i] = strconv.FormatUint(v, 10)
	}
	return strings.Join(s, ",")
}

func hdrHex(b []byte) string {
	if len(b) == 0 {
		return "-"
	}
	return hex.EncodeToString(b)
}

// parse: the real ReadHeader on a reader over bs
func hdrParse(bs []byte) (h snes.Header, err error) {
	err = h.ReadHeader(bytes.NewReader(bs))
	return
}

func hdrSerialise(h *snes.Header) ([]byte, error) {
	var b bytes.Buffer
	err := h.WriteHeader(&b)
	return b.Bytes(), err
}

// ---------------------------------------------------------------- structured generators
const (
	hdrOffTitleLast = 0x24
	hdrOffOldMaker  = 0x2A
)

// content classes of an 80-byte header; the class name goes into the measured distribution
var hdrContentClasses = []string{"zero", "ff", "ramp", "random", "onehot", "realistic", "highbits", "lowvals"}

func hdrContent(r *hdrRng, class string, pos int) []byte {
	b := make([]byte, 80)
	switch class {
	case "zero":
	case "ff":
		for i := range b {
			b[i] = 0xFF
		}
	case "ramp":
		s := r.b()
		for i := range b {
			b[i] = s + byte(i)
		}
	case "random":
		for i := range b {
			b[i] = r.b()
		}
	case "onehot":
		b[pos%80] = 1 + byte(r.n(255))
	case "realistic":
		copy(b[0:], []byte("01ZELE"))
		copy(b[0x10:], []byte("THE LEGEND OF ZELDA  "))
		b[0x25], b[0x26], b[0x27], b[0x28], b[0x29] = 0x20, 0x02, 0x0A, 0x03, 0x01
		cs := uint16(r.next())
		b[0x2C], b[0x2D] = byte(^cs), byte(^cs>>8)
		b[0x2E], b[0x2F] = byte(cs), byte(cs>>8)
		for i := 0x30; i < 80; i += 2 {
			a := 0x8000 + uint16(r.n(0x8000))
			b[i], b[i+1] = byte(a), byte(a>>8)
		}
	case "highbits":
		for i := range b {
			b[i] = 0x80 | r.b()
		}
	case "lowvals":
		for i := range b {
			b[i] = byte(r.n(3))
		}
	}
	return b
}

// version classes: how bytes $2A / $24 are forced
var hdrVersionClasses = []string{"v3", "v3_t0", "v2", "v2_m32", "v2_m34", "v1", "v1_t1", "v1_tff", "v1_m32", "v1_m34", "asis"}

func hdrForceVersion(r *hdrRng, b []byte, class string) {
	nz := func() byte { return 1 + byte(r.n(255)) }
	n33 := func() byte {
		for {
			x := r.b()
			if x != 0x33 {
				return x
			}
		}
	}
	switch class {
	case "v3":
		b[hdrOffOldMaker] = 0x33
		b[hdrOffTitleLast] = nz()
	case "v3_t0":
		b[hdrOffOldMaker] = 0x33
		b[hdrOffTitleLast] = 0
	case "v2":
		b[hdrOffOldMaker] = n33()
		b[hdrOffTitleLast] = 0
	case "v2_m32":
		b[hdrOffOldMaker] = 0x32
		b[hdrOffTitleLast] = 0
	case "v2_m34":
		b[hdrOffOldMaker] = 0x34
		b[hdrOffTitleLast] = 0
	case "v1":
		b[hdrOffOldMaker] = n33()
		b[hdrOffTitleLast] = nz()
	case "v1_t1":
		b[hdrOffOldMaker] = n33()
		b[hdrOffTitleLast] = 1
	case "v1_tff":
		b[hdrOffOldMaker] = 0
		b[hdrOffTitleLast] = 0xFF
	case "v1_m32":
		b[hdrOffOldMaker] = 0x32
		b[hdrOffTitleLast] = nz()
	case "v1_m34":
		b[hdrOffOldMaker] = 0x34
		b[hdrOffTitleLast] = nz()
	}
}

func hdrExpectVersion(b []byte) int {
	if b[hdrOffOldMaker] == 0x33 {
		return 3
	}
	if b[hdrOffTitleLast] == 0 {
		return 2
	}
	return 1
}

// the k-th structured header: cycles through content x version classes (onehot walks all 80 positions)
func hdrStructured(r *hdrRng, k int) (b []byte, feature string) {
	cc := hdrContentClasses[k%len(hdrContentClasses)]
	vc := hdrVersionClasses[(k/len(hdrContentClasses))%len(hdrVersionClasses)]
	pos := (k / len(hdrContentClasses)) % 80 // 80 and the number of version classes are coprime
	b = hdrContent(r, cc, pos)
	hdrForceVersion(r, b, vc)
	ext := "ext0"
	for _, x := range b[:16] {
		if x != 0 {
			ext = "ext1"
		}
	}
	feature = fmt.Sprintf("%s/%s/%s", cc, vc, ext)
	if cc == "onehot" {
		feature += fmt.Sprintf("/p%d", pos)
	}
	return
}

func hdrCorpus() [][]byte {
	var out [][]byte
	dir := os.Getenv("VERIF_CORPUS")
	if dir == "" {
		return nil
	}
	ents, err := os.ReadDir(dir)
	if err != nil {
		return nil
	}
	var names []string
	for _, e := range ents {
		names = append(names, e.Name())
	}
	sort.Strings(names)
	for _, n := range names {
		data, err := os.ReadFile(dir + "/" + n)
		if err != nil {
			continue
		}
		for _, line := range strings.Split(string(data), "\n") {
			line = strings.TrimSpace(line)
			if line == "" || strings.HasPrefix(line, "#") {
				continue
			}
			if b, err := hex.DecodeString(line); err == nil {
				out = append(out, b)
			}
		}
	}
	return out
}

// image of length n: byte j = (a*j + c + j>>8) mod 256, with ov copied at ovoff when it fits
func hdrImage(n, a, c, ovoff int, ov []byte) []byte {
	img := make([]byte, n)
	for j := range img {
		img[j] = byte(a*j + c + (j >> 8))
	}
	if ovoff >= 0 && ovoff+len(ov) <= n {
		copy(img[ovoff:], ov)
	}
	return img
}

// ---------------------------------------------------------------- hdrcases: the tie
//
// H <feature> <hex input> <err 0|1> <version> <fields> <hex serialisation>
// W <feature> <hex input(80)> <new values> <hex serialisation>
// R <feature> <n> <a> <c> <ovoff> <hex overlay> <off> <woff> <rd: S|P|E|K> <version> <fields> <newvals|-> <wr: P|E|K|-> <hex window after> <outside changed count>
//   (off = HeaderOffset for the read, woff = HeaderOffset for the write; the window is [woff, woff+80))
func hdrCases(args []string) int {
	seed, _ := strconv.ParseUint(args[0], 10, 64)
	nH, _ := strconv.Atoi(args[1])
	nR, _ := strconv.Atoi(args[2])
	r := &hdrRng{s: seed}
	emitH := func(feature string, bs []byte) {
		h, err := hdrParse(bs)
		if err != nil {
			fmt.Printf("H %s %s 1 0 - -\n", feature, hdrHex(bs))
			return
		}
		ser, werr := hdrSerialise(&h)
		if werr != nil {
			fmt.Printf("H %s %s 1 0 - -\n", feature+"/werr", hdrHex(bs))
			return
		}
		fmt.Printf("H %s %s 0 %d %s %s\n", feature, hdrHex(bs), h.HeaderVersion(), hdrJoin(hdrValues(&h)), hdrHex(ser))
	}
	for _, c := range hdrCorpus() {
		emitH("corpus", c)
	}
	for k := 0; k < nH; k++ {
		switch {
		case k%16 == 15: // malformed: wrong length (short -> error, long -> the first 80 bytes)
			b, f := hdrStructured(r, k)
			ln := []int{0, 1, 2, 15, 16, 17, 41, 43, 78, 79, 81, 96, 160}[r.n(13)]
			if ln <= 80 {
				b = b[:ln]
			} else {
				for len(b) < ln {
					b = append(b, r.b())
				}
			}
			emitH(fmt.Sprintf("len%d/%s", ln, f), b)
		case k%16 == 7: // serialisation of arbitrary in-range field values
			b, f := hdrStructured(r, k)
			h, err := hdrParse(b)
			if err != nil {
				emitH(f, b)
				continue
			}
			ls := hdrFlatten(&h)
			nv := make([]uint64, len(ls))
			mode := r.n(3)
			for i, l := range ls {
				max := uint64(1)<<(8*uint(l.size)) - 1
				if l.size >= 8 {
					max = ^uint64(0)
				}
				switch mode {
				case 0:
					nv[i] = r.next() & max
				case 1:
					nv[i] = max
				default:
					nv[i] = uint64(i+1) & max
				}
			}
			hdrSetValues(&h, nv)
			ser, _ := hdrSerialise(&h)
			fmt.Printf("W set%d/%s %s %s %s\n", mode, f, hdrHex(b), hdrJoin(nv), hdrHex(ser))
		default:
			b, f := hdrStructured(r, k)
			emitH(f, b)
		}
	}
	// ROM images
	sizes := []int{0x8000, 0x8000, 0x8000, 0x8001, 0x8000 + 79, 0x10000, 0x10000, 0x7FFF, 0x8000 - 80, 0, 0x18000}
	for k := 0; k < nR; k++ {
		n := sizes[k%len(sizes)]
		if k%23 == 22 {
			n = 0x8000 + r.n(0x4000)
		}
		a, c := r.n(256), r.n(256)
		ov, f := hdrStructured(r, k*7+3)
		off := 0x7FB0
		feature := fmt.Sprintf("n%x/%s", n, f)
		switch {
		case k%5 == 3 && n >= 0x10000:
			off = 0xFFB0
			feature += "/hirom"
		case k%11 == 10:
			off = n - 80 + r.n(3) - 1 // window ends one before / at / one past the end of the image
			feature += fmt.Sprintf("/edge%d", off+80-n)
		case k%13 == 12:
			off = n - 40 // window straddles the end: v<=1 write window may or may not fit
			feature += "/straddle"
		}
		if off < 0 {
			off = 0
		}
		woff := off
		switch {
		case k%7 == 5 && n >= 0x8000:
			woff = []int{0, n - 80, n - 79, n - 64, n - 63, 0x7FB0 - 80, 0x7FB0 + 16, n}[r.n(8)] // write somewhere else / past the end
			feature += fmt.Sprintf("/wmove%d", woff+80-n)
		}
		img := hdrImage(n, a, c, off, ov)
		before := append([]byte(nil), img...)
		prefix := fmt.Sprintf("R %s %d %d %d %d %s %d %d", feature, n, a, c, off, hdrHex(ov), off, woff)
		rom, err := snes.NewROM("case", img)
		if rom == nil {
			fmt.Printf("%s S 0 - - - - 0\n", prefix)
			continue
		}
		rd := "K"
		if off != 0x7FB0 {
			rom.HeaderOffset = uint32(off)
			func() {
				defer func() {
					if recover() != nil {
						rd = "P"
					}
				}()
				err = rom.ReadHeader()
			}()
		}
		if rd == "K" && err != nil {
			rd = "E"
		}
		if rd != "K" {
			fmt.Printf("%s %s 0 - - - - 0\n", prefix, rd)
			continue
		}
		ver := rom.Header.HeaderVersion()
		fields := hdrValues(&rom.Header)
		nvs := "-"
		if k%3 == 1 { // modify the header before writing it back
			nv := make([]uint64, len(fields))
			for i, l := range hdrFlatten(&rom.Header) {
				max := uint64(1)<<(8*uint(l.size)) - 1
				if l.size >= 8 {
					max = ^uint64(0)
				}
				nv[i] = r.next() & max
			}
			hdrSetValues(&rom.Header, nv)
			nvs = hdrJoin(nv)
		}
		wr := "K"
		rom.HeaderOffset = uint32(woff)
		func() {
			defer func() {
				if recover() != nil {
					wr = "P"
				}
			}()
			if e := rom.WriteHeader(); e != nil {
				wr = "E"
			}
		}()
		outside := 0
		for j := range before {
			if (j < woff || j >= woff+80) && rom.Contents[j] != before[j] {
				outside++
			}
		}
		if len(rom.Contents) != len(before) {
			outside++
		}
		win := []byte{}
		if woff+80 <= len(rom.Contents) {
			win = rom.Contents[woff : woff+80]
		}
		fmt.Printf("%s %s %d %s %s %s %s %d\n", prefix, rd, ver, hdrJoin(fields), nvs, wr, hdrHex(win), outside)
	}
	return 0
}

// ---------------------------------------------------------------- hdrcheck: the falsifier
type hdrInput struct {
	h       []byte // 80 header bytes
	n, a, c int    // image
	i       int    // byte position
	b       byte   // new byte value
}

func (in hdrInput) String() string {
	return fmt.Sprintf("h=%s,n=%d,a=%d,c=%d,i=%d,b=%d", hdrHex(in.h), in.n, in.a, in.c, in.i, in.b)
}

func hdrParseInput(s string) (in hdrInput, err error) {
	for _, kv := range strings.Split(s, ",") {
		p := strings.SplitN(kv, "=", 2)
		if len(p) != 2 {
			return in, fmt.Errorf("bad input %q", kv)
		}
		switch p[0] {
		case "h":
			in.h, err = hex.DecodeString(p[1])
			if err != nil {
				return
			}
		case "n":
			in.n, _ = strconv.Atoi(p[1])
		case "a":
			in.a, _ = strconv.Atoi(p[1])
		case "c":
			in.c, _ = strconv.Atoi(p[1])
		case "i":
			in.i, _ = strconv.Atoi(p[1])
		case "b":
			x, _ := strconv.Atoi(p[1])
			in.b = byte(x)
		}
	}
	return
}

func hdrGuard(f func(hdrInput) string) func(hdrInput) string {
	return func(in hdrInput) (res string) {
		defer func() {
			if r := recover(); r != nil {
				res = fmt.Sprintf("panic: %v", r)
			}
		}()
		return f(in)
	}
}

// differing flattened fields of two headers
func hdrDiff(h1, h2 *snes.Header) (idx []int, paths []string) {
	l1, l2 := hdrFlatten(h1), hdrFlatten(h2)
	for i := range l1 {
		if l1[i].v.Uint() != l2[i].v.Uint() {
			idx = append(idx, i)
			paths = append(paths, l1[i].path)
		}
	}
	return
}

// index of the first leaf that belongs to the version-1 header (documented at $FFC0): everything
// declared before it is a version 2/3 extension field
func hdrFirstV1Leaf(ls []hdrLeaf) int {
	for i, l := range ls {
		if l.tag >= 0xFFC0 {
			return i
		}
	}
	return len(ls)
}

var hdrClauses = map[string]func(hdrInput) string{
	// every image >= 32 KiB: NewROM parses, WriteHeader leaves the image unchanged
	"roundtrip": func(in hdrInput) string {
		img := hdrImage(in.n, in.a, in.c, 0x7FB0, in.h)
		before := append([]byte(nil), img...)
		rom, err := snes.NewROM("x", img)
		if err != nil || rom == nil {
			return fmt.Sprintf("NewROM on a %d-byte image: %v", in.n, err)
		}
		if err := rom.WriteHeader(); err != nil {
			return fmt.Sprintf("WriteHeader: %v", err)
		}
		if len(rom.Contents) != len(before) {
			return fmt.Sprintf("image length %d -> %d", len(before), len(rom.Contents))
		}
		for j := range before {
			if rom.Contents[j] != before[j] {
				return fmt.Sprintf("version %d: byte $%06X (header offset $%02X) was $%02X, is $%02X after ReadHeader+WriteHeader",
					rom.Header.HeaderVersion(), j, j-0x7FB0, before[j], rom.Contents[j])
			}
		}
		// the same ROM object again: patch one header byte in the image (in.i, in.b), re-read, write back; then a
		// third round with the original bytes restored (no state may be carried from one call to the next)
		for round, patch := range [][2]int{{in.i % 80, int(in.b)}, {in.i % 80, int(before[0x7FB0+in.i%80])}} {
			rom.Contents[0x7FB0+patch[0]] = byte(patch[1])
			want := append([]byte(nil), rom.Contents...)
			if err := rom.ReadHeader(); err != nil {
				return fmt.Sprintf("round %d: ReadHeader: %v", round+2, err)
			}
			if err := rom.WriteHeader(); err != nil {
				return fmt.Sprintf("round %d: WriteHeader: %v", round+2, err)
			}
			for j := range want {
				if rom.Contents[j] != want[j] {
					return fmt.Sprintf("round %d on the same ROM object (header byte $%02X patched to $%02X, version %d): byte $%06X (header offset $%02X) was $%02X, is $%02X after ReadHeader+WriteHeader",
						round+2, patch[0], patch[1], rom.Header.HeaderVersion(), j, j-0x7FB0, want[j], rom.Contents[j])
				}
			}
		}
		return ""
	},
	// serialise(parse bs) is 80 bytes and parses back to an identical header
	"serialise": func(in hdrInput) string {
		h, err := hdrParse(in.h)
		if err != nil {
			return fmt.Sprintf("ReadHeader on 80 bytes: %v", err)
		}
		ser, err := hdrSerialise(&h)
		if err != nil {
			return fmt.Sprintf("WriteHeader: %v", err)
		}
		if len(ser) != 80 {
			return fmt.Sprintf("serialisation is %d bytes", len(ser))
		}
		h2, err := hdrParse(ser)
		if err != nil {
			return fmt.Sprintf("ReadHeader of the serialisation: %v", err)
		}
		if !reflect.DeepEqual(h, h2) {
			_, p := hdrDiff(&h, &h2)
			return fmt.Sprintf("re-parsed header differs: version %d -> %d, fields %v", h.HeaderVersion(), h2.HeaderVersion(), p)
		}
		if h.HeaderVersion() >= 2 && !bytes.Equal(ser, in.h) {
			return "version >= 2: serialisation differs from the parsed bytes"
		}
		return ""
	},
	// version 3 iff $FFDA = $33, else 2 iff $FFD4 = 0, else 1 with the extension fields reported as zero
	"version": func(in hdrInput) string {
		h, err := hdrParse(in.h)
		if err != nil {
			return fmt.Sprintf("ReadHeader on 80 bytes: %v", err)
		}
		if want := hdrExpectVersion(in.h); h.HeaderVersion() != want {
			return fmt.Sprintf("HeaderVersion() = %d, want %d ($FFDA=$%02X $FFD4=$%02X)", h.HeaderVersion(), want, in.h[hdrOffOldMaker], in.h[hdrOffTitleLast])
		}
		if h.HeaderVersion() == 1 {
			ls := hdrFlatten(&h)
			for _, l := range ls[:hdrFirstV1Leaf(ls)] {
				if l.v.Uint() != 0 {
					return fmt.Sprintf("version 1 but extension field %s = %d", l.path, l.v.Uint())
				}
			}
		}
		return ""
	},
	// every tagged field is the little-endian value of the bytes at its documented address
	// (extension fields only when the version is 2 or 3)
	"offsets": func(in hdrInput) string {
		h, err := hdrParse(in.h)
		if err != nil {
			return fmt.Sprintf("ReadHeader on 80 bytes: %v", err)
		}
		total := 0
		for _, l := range hdrFlatten(&h) {
			total += l.size
			if l.tag < 0 {
				continue
			}
			o := int(l.tag - 0xFFB0)
			if o < 0 || o+l.size > 80 {
				return fmt.Sprintf("field %s documented at $%04X lies outside $FFB0-$FFFF", l.path, l.tag)
			}
			if h.HeaderVersion() == 1 && l.tag < 0xFFC0 {
				continue
			}
			want := uint64(0)
			for k := l.size - 1; k >= 0; k-- {
				want = want<<8 | uint64(in.h[o+k])
			}
			if l.v.Uint() != want {
				return fmt.Sprintf("field %s (documented at $%04X, %d bytes) = $%X, bytes there decode little-endian to $%X", l.path, l.tag, l.size, l.v.Uint(), want)
			}
		}
		if total != 80 {
			return fmt.Sprintf("exported fields cover %d bytes, not 80", total)
		}
		return ""
	},
	// changing byte i to b changes exactly the one field covering it (both parses at version >= 2);
	// at version 1 a byte of $FFB0-$FFBF changes nothing reported; the version moves only with $FFD4/$FFDA
	"locality": func(in hdrInput) string {
		if in.h[in.i] == in.b {
			return ""
		}
		h1, err := hdrParse(in.h)
		if err != nil {
			return fmt.Sprintf("ReadHeader on 80 bytes: %v", err)
		}
		m := append([]byte(nil), in.h...)
		m[in.i] = in.b
		h2, err := hdrParse(m)
		if err != nil {
			return fmt.Sprintf("ReadHeader on 80 bytes: %v", err)
		}
		v1, v2 := h1.HeaderVersion(), h2.HeaderVersion()
		if in.i != hdrOffOldMaker && in.i != hdrOffTitleLast && v1 != v2 {
			return fmt.Sprintf("version %d -> %d after changing header byte $%02X", v1, v2, in.i)
		}
		idx, paths := hdrDiff(&h1, &h2)
		ls := hdrFlatten(&h1)
		switch {
		case v1 >= 2 && v2 >= 2, v1 == 1 && v2 == 1 && in.i >= 16:
			if len(idx) != 1 {
				return fmt.Sprintf("changing header byte $%02X (version %d) changed %d fields %v, want exactly one", in.i, v1, len(idx), paths)
			}
			l := ls[idx[0]]
			if l.tag >= 0 && !(int(l.tag-0xFFB0) <= in.i && in.i < int(l.tag-0xFFB0)+l.size) {
				return fmt.Sprintf("changing header byte $%02X changed field %s documented at $%04X (%d bytes)", in.i, l.path, l.tag, l.size)
			}
		case v1 == 1 && v2 == 1:
			if len(idx) != 0 {
				return fmt.Sprintf("version 1: changing extension byte $%02X changed reported fields %v", in.i, paths)
			}
		}
		return ""
	},
}

// the documented SNES header map (the same table as coq/Spec/HeaderSpec.v; the check proves the two
// tables equal on every run, Lemma documented_tie): flattened path -> (cartridge address, size)
var hdrDocumented = []struct {
	path string
	addr int64
	size int
}{
	{"MakerCode", 0xFFB0, 2}, {"GameCode", 0xFFB2, 4}, {"Fixed1[0]", 0xFFB6, 1}, {"Fixed1[5]", 0xFFBB, 1},
	{"FlashSize", 0xFFBC, 1}, {"ExpansionRAMSize", 0xFFBD, 1}, {"SpecialVersion", 0xFFBE, 1}, {"CoCPUType", 0xFFBF, 1},
	{"Title[0]", 0xFFC0, 1}, {"Title[20]", 0xFFD4, 1}, {"MapMode", 0xFFD5, 1}, {"CartridgeType", 0xFFD6, 1},
	{"ROMSize", 0xFFD7, 1}, {"RAMSize", 0xFFD8, 1}, {"DestinationCode", 0xFFD9, 1}, {"OldMakerCode", 0xFFDA, 1},
	{"MaskROMVersion", 0xFFDB, 1}, {"ComplementCheckSum", 0xFFDC, 2}, {"CheckSum", 0xFFDE, 2},
	{"NativeVectors.COP", 0xFFE4, 2}, {"NativeVectors.BRK", 0xFFE6, 2}, {"NativeVectors.ABORT", 0xFFE8, 2},
	{"NativeVectors.NMI", 0xFFEA, 2}, {"NativeVectors.IRQ", 0xFFEE, 2},
	{"EmulatedVectors.COP", 0xFFF4, 2}, {"EmulatedVectors.ABORT", 0xFFF8, 2}, {"EmulatedVectors.NMI", 0xFFFA, 2},
	{"EmulatedVectors.RESET", 0xFFFC, 2}, {"EmulatedVectors.IRQBRK", 0xFFFE, 2},
}

func init() {
	// every field named in the documented map is the little-endian value of the bytes at its documented address
	hdrClauses["documented"] = func(in hdrInput) string {
		h, err := hdrParse(in.h)
		if err != nil {
			return fmt.Sprintf("ReadHeader on 80 bytes: %v", err)
		}
		byPath := map[string]hdrLeaf{}
		for _, l := range hdrFlatten(&h) {
			byPath[l.path] = l
		}
		for _, d := range hdrDocumented {
			l, ok := byPath[d.path]
			if !ok {
				continue // renamed / restructured field: still pinned by its rom tag (clause offsets)
			}
			if l.size != d.size {
				return fmt.Sprintf("field %s is %d bytes, documented as %d bytes at $%04X", d.path, l.size, d.size, d.addr)
			}
			if h.HeaderVersion() == 1 && d.addr < 0xFFC0 {
				continue
			}
			o := int(d.addr - 0xFFB0)
			want := uint64(0)
			for k := d.size - 1; k >= 0; k-- {
				want = want<<8 | uint64(in.h[o+k])
			}
			if l.v.Uint() != want {
				return fmt.Sprintf("field %s = $%X, but the bytes at its documented address $%04X decode little-endian to $%X", d.path, l.v.Uint(), d.addr, want)
			}
		}
		return ""
	}
	commands["hdrdocumented"] = func(args []string) int {
		for _, d := range hdrDocumented {
			fmt.Printf("%s %d %d\n", d.path, d.addr, d.size)
		}
		return 0
	}
}

var hdrClauseOrder = []string{"roundtrip", "serialise", "version", "offsets", "documented", "locality"}

func hdrCheck(args []string) int {
	seed, _ := strconv.ParseUint(args[0], 10, 64)
	n, _ := strconv.Atoi(args[1])
	r := &hdrRng{s: seed ^ 0xC09}
	counts := map[string]int{}
	fails := map[string]string{}
	try := func(clause string, in hdrInput) {
		if _, bad := fails[clause]; bad {
			return
		}
		counts[clause]++
		if d := hdrGuard(hdrClauses[clause])(in); d != "" {
			fails[clause] = fmt.Sprintf("input=%s %s", in.String(), d)
		}
	}
	sizes := []int{0x8000, 0x8001, 0x10000, 0x8000 + 81, 0x20000}
	var pool [][]byte
	pool = append(pool, hdrCorpus()...)
	for k := 0; k < n; k++ {
		b, _ := hdrStructured(r, k)
		pool = append(pool, b)
	}
	for k, b := range pool {
		if len(b) != 80 {
			continue
		}
		in := hdrInput{h: b, n: sizes[k%len(sizes)], a: r.n(256), c: r.n(256)}
		if k%97 == 96 {
			in.n = 0x8000 + r.n(0x30000)
		}
		if k%4 != 0 && k > 64 { // images are the expensive part: every 4th header after the first 64
			in.n = 0x8000
		}
		try("roundtrip", in)
		try("serialise", in)
		try("version", in)
		try("offsets", in)
		try("documented", in)
		// locality: every position on a share of the headers, random positions on the rest
		if k%8 == 0 {
			for i := 0; i < 80; i++ {
				for _, nb := range []byte{b[i] ^ 1, b[i] ^ 0x80, r.b(), 0x33, 0x00} {
					try("locality", hdrInput{h: b, i: i, b: nb})
				}
			}
		} else {
			try("locality", hdrInput{h: b, i: r.n(80), b: r.b()})
		}
	}
	rc := 0
	for _, c := range hdrClauseOrder {
		if d, bad := fails[c]; bad {
			fmt.Printf("FAIL C09.%s %s\n", c, d)
			rc = 1
		} else {
			fmt.Printf("OK C09.%s %d\n", c, counts[c])
		}
	}
	return rc
}

func hdrReplay(args []string) int {
	f, ok := hdrClauses[args[0]]
	if !ok {
		fmt.Println("unknown clause", args[0])
		return 2
	}
	in, err := hdrParseInput(args[1])
	if err != nil || len(in.h) != 80 {
		fmt.Println("bad input:", err)
		return 2
	}
	if h, e := hdrParse(in.h); e == nil {
		fmt.Printf("parsed: version=%d fields=%s\n", h.HeaderVersion(), hdrJoin(hdrValues(&h)))
	} else {
		fmt.Printf("parsed: error %v\n", e)
	}
	if d := hdrGuard(f)(in); d != "" {
		fmt.Printf("FAIL C09.%s input=%s %s\n", args[0], in.String(), d)
		return 1
	}
	fmt.Printf("OK C09.%s holds on this input\n", args[0])
	return 0
}

// hdrlayout: the flattened layout as reflection sees it (cross-check of the translator's go/types view)
func hdrLayout(args []string) int {
	var h snes.Header
	for _, l := range hdrFlatten(&h) {
		fmt.Printf("%s %d %d\n", l.path, l.size, l.tag)
	}
	return 0
}

func init() {
	commands["hdrcases"] = hdrCases
	commands["hdrcheck"] = hdrCheck
	commands["hdrreplay"] = hdrReplay
	commands["hdrlayout"] = hdrLayout
}
