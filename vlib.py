"""Shared infrastructure of the /verif checks (stdlib only)."""
import fcntl
import hashlib
import json
import os
import re
import shutil
import subprocess
import sys
import time
from concurrent.futures import ThreadPoolExecutor

ROOT = os.path.dirname(os.path.abspath(__file__))
BUILD = os.path.join(ROOT, "build")
WORK = os.path.join(BUILD, "work")
GEN = os.path.join(WORK, "Gen")
RUN = os.path.join(WORK, "Run")
REPLAYS = os.path.join(BUILD, "replays")
REPO = os.environ.get("VERIF_REPO", "/repo")
COQ = os.path.join(ROOT, "coq")

GOENV = dict(os.environ, GOFLAGS="-mod=mod", GOPROXY="off", GOSUMDB="off", GOTOOLCHAIN="local",
             CGO_ENABLED=os.environ.get("CGO_ENABLED", "1"))

COQ_ARGS = ["-Q", os.path.join(COQ, "Lib"), "Lib", "-Q", os.path.join(COQ, "Props"), "Props",
            "-Q", os.path.join(COQ, "Spec"), "Spec", "-Q", os.path.join(COQ, "Model"), "Model",
            "-Q", GEN, "Gen", "-Q", RUN, "Run"]


def sh(cmd, timeout=600, cwd=None, env=None, input=None):
    """Run a command under a timeout; returns (rc, combined output). rc 124 on timeout."""
    t0 = time.time()
    try:
        p = subprocess.run(cmd, cwd=cwd, env=env or GOENV, input=input, stdout=subprocess.PIPE,
                           stderr=subprocess.STDOUT, timeout=timeout, text=True)
        return p.returncode, p.stdout, time.time() - t0
    except subprocess.TimeoutExpired as e:
        out = e.stdout or ""
        if isinstance(out, bytes):
            out = out.decode("utf-8", "replace")
        return 124, out + "\n[timeout after %ss]" % timeout, time.time() - t0


def sha(*parts):
    h = hashlib.sha256()
    for p in parts:
        if isinstance(p, str):
            p = p.encode()
        h.update(p)
        h.update(b"\0")
    return h.hexdigest()


def file_sha(path):
    try:
        with open(path, "rb") as f:
            return hashlib.sha256(f.read()).hexdigest()
    except OSError:
        return "missing"


class Lock:
    """Lock on a named group of generated files in the shared work directory."""

    def __init__(self, name="global"):
        self.name = name

    def __enter__(self):
        os.makedirs(BUILD, exist_ok=True)
        self.f = open(os.path.join(BUILD, ".lock_" + self.name), "w")
        fcntl.flock(self.f, fcntl.LOCK_EX)
        return self

    def __exit__(self, *a):
        fcntl.flock(self.f, fcntl.LOCK_UN)
        self.f.close()


_IMPORT_RE = re.compile(r"From\s+(Lib|Props|Spec|Model|Gen|Run|Snapshot)\s+Require\s+(?:Import\s+|Export\s+)?([^.]*)\.")


_IMPORT_Q_RE = re.compile(r"(?<![A-Za-z_])Require\s+(?:Import\s+|Export\s+)?((?:(?:Lib|Props|Spec|Model|Gen|Run|Snapshot)\.[A-Za-z0-9_]+\s*)+)\.")


def _imports(src):
    """(library, module) pairs a .v file requires: `From L Require [Import] M ...` and `Require [Import] L.M ...`."""
    out = []
    for m in _IMPORT_RE.finditer(src):
        for name in m.group(2).split():
            out.append((m.group(1), name))
    for m in _IMPORT_Q_RE.finditer(src):
        for q in m.group(1).split():
            lib, name = q.split(".", 1)
            out.append((lib, name))
    return out


def dep_hash(vfile, seen=None):
    """Hash of a .v file together with everything it imports from this development (transitively)."""
    seen = seen if seen is not None else {}
    if vfile in seen:
        return seen[vfile]
    seen[vfile] = "cycle"
    try:
        src = open(vfile).read()
    except OSError:
        seen[vfile] = "missing"
        return "missing"
    parts = [src]
    for (lib, name) in _imports(src):
        base = {"Gen": GEN, "Run": RUN}.get(lib, os.path.join(COQ, lib))
        parts.append(dep_hash(os.path.join(base, name + ".v"), seen))
    seen[vfile] = sha(*parts)
    return seen[vfile]


def static_vo_fresh(vfile):
    """True if every static (Lib/Props/Spec/Model) import of vfile has a compiled .vo newer than its source."""
    try:
        src = open(vfile).read()
    except OSError:
        return False
    for (lib, name) in _imports(src):
        if lib in ("Gen", "Run"):
            continue
        v = os.path.join(COQ, lib, name + ".v")
        vo = v[:-2] + ".vo"
        if not os.path.exists(vo) or os.path.getmtime(vo) < os.path.getmtime(v):
            return False
    return True


def coqc(vfile, timeout=900, cwd=None):
    """Compile one .v file; cached on the hash of the file and of everything it imports (transitively)."""
    key = dep_hash(vfile)
    stamp = vfile + ".stamp"
    logf = vfile + ".log"
    vo = vfile[:-2] + ".vo"
    if os.path.exists(stamp) and os.path.exists(vo) and os.path.exists(logf):
        try:
            st = json.load(open(stamp))
            if st.get("key") == key:
                return st["rc"], open(logf).read(), st.get("secs", 0.0), True
        except Exception:
            pass
    if os.path.exists(vo):
        os.remove(vo)
    rc, out, dt = sh(["coqc"] + COQ_ARGS + [vfile], timeout=timeout, cwd=cwd or os.path.dirname(vfile), env=dict(os.environ))
    open(logf, "w").write(out)
    json.dump({"key": key, "rc": rc, "secs": dt}, open(stamp, "w"))
    return rc, out, dt, False


def write_if_changed(path, content):
    os.makedirs(os.path.dirname(path), exist_ok=True)
    try:
        if open(path).read() == content:
            return False
    except OSError:
        pass
    with open(path, "w") as f:
        f.write(content)
    return True


def parallel(jobs, workers=16):
    """jobs: list of zero-argument callables; returns their results in order."""
    with ThreadPoolExecutor(max_workers=workers) as ex:
        futs = [ex.submit(j) for j in jobs]
        return [f.result() for f in futs]


def build_gen_tool():
    with Lock("gentool"):
        return _build_gen_tool()


def _build_gen_tool():
    out = os.path.join(BUILD, "gen")
    srcs = sorted(os.listdir(os.path.join(ROOT, "gen")))
    key = sha(*[open(os.path.join(ROOT, "gen", n), "rb").read() for n in srcs])
    stamp = out + ".stamp"
    if os.path.exists(out) and os.path.exists(stamp) and open(stamp).read() == key:
        return
    rc, o, _ = sh(["go", "build", "-o", out, "."], cwd=os.path.join(ROOT, "gen"), timeout=300)
    if rc != 0:
        raise RuntimeError("building /verif/gen failed:\n" + o)
    open(stamp, "w").write(key)


# units with a committed snapshot (coq/Snapshot/<unit>.v) that can stand in for the regenerated file when the translator
# refuses the current source (a loop, a construct it does not know): the snapshot is then a hand-kept model and the
# checks' digest comparison with the compiled code is what ties it to the tree under test
SNAPSHOT_FALLBACK = ("GenColor", "GenMap_lorom", "GenMap_hirom", "GenMap_exhirom", "GenMap_sa1rom")
FALLBACK = {}


def fallback_obligations(ck, units):
    """Record, in the evidence of a check, which of its units run on the committed snapshot instead of a regenerated model."""
    used = {u: FALLBACK[u] for u in units if u in FALLBACK}
    for u, why in sorted(used.items()):
        ck.oblige("translator refused %s on this tree (%s): the committed snapshot coq/Snapshot/%s.v is used as a hand-kept model; "
                  "it is tied to the compiled code by the digest comparison below instead of by regeneration" % (u, why.splitlines()[0][:160] if why else "", u), True)
    if used:
        ck.cov["translator_fallback"] = sorted(used)
    return used


def run_gen(only):
    """Regenerate the Coq model files from REPO. Returns dict unit -> error text for failed units (units replaced by
    their committed snapshot are not errors: see SNAPSHOT_FALLBACK / FALLBACK)."""
    build_gen_tool()
    os.makedirs(GEN, exist_ok=True)
    tmp = os.path.join(WORK, "gen_tmp_" + only.replace(",", "_"))
    shutil.rmtree(tmp, ignore_errors=True)
    os.makedirs(tmp)
    rc, out, _ = sh([os.path.join(BUILD, "gen"), "-repo", REPO, "-out", tmp, "-only", only], timeout=300)
    errs = {}
    for n in sorted(os.listdir(tmp)):
        p = os.path.join(tmp, n)
        if n.endswith(".err"):
            unit, why = n[:-4], open(p).read().strip()
            snap = os.path.join(COQ, "Snapshot", unit + ".v")
            if unit in SNAPSHOT_FALLBACK and os.path.exists(snap):
                FALLBACK[unit] = why
                write_if_changed(os.path.join(GEN, unit + ".v"),
                                 "(* translator refused the current source; committed snapshot used instead *)\n" + open(snap).read())
            else:
                errs[unit] = why
        elif n.endswith(".v") or n.endswith(".json"):
            write_if_changed(os.path.join(GEN, n), open(p).read())
    shutil.rmtree(tmp, ignore_errors=True)
    if rc not in (0, 3):
        errs["gen"] = out[-2000:]
    return errs


def build_harness():
    """(Re)build the Go harness against REPO. Returns path of the binary."""
    with Lock("harness"):
        return _build_harness()


def _build_harness():
    hd = os.path.join(BUILD, "harness")
    os.makedirs(hd, exist_ok=True)
    src = os.path.join(ROOT, "harness")
    for n in os.listdir(hd):
        if n.endswith(".go") and not os.path.exists(os.path.join(src, n)):
            os.remove(os.path.join(hd, n))
    for n in os.listdir(src):
        if n.endswith(".go"):
            write_if_changed(os.path.join(hd, n), open(os.path.join(src, n)).read())
    write_if_changed(os.path.join(hd, "go.mod"),
                     "module verif/harness\n\ngo 1.17\n\nrequire github.com/alttpo/snes v0.0.0\n\n"
                     "replace github.com/alttpo/snes => %s\n" % REPO)
    out = os.path.join(BUILD, "harness.bin")
    if os.environ.get("VERIF_COVER"):
        # diagnostic mode (tools/covreport.py): the harness as a coverage-instrumented test binary behind a wrapper
        # script; every invocation leaves a statement-coverage profile of /repo under $VERIF_COVER.  Never used for evidence.
        return _build_harness_cover(hd, out)
    # a wrapper left behind by the diagnostic mode must not survive
    if os.path.exists(out) and open(out, "rb").read(2) == b"#!":
        os.remove(out)
    tm = os.path.join(hd, "cover_main_test.go")
    if os.path.exists(tm):
        os.remove(tm)
    rc, o, _ = sh(["go", "build", "-o", out, "."], cwd=hd, timeout=600)
    if rc != 0:
        return None, o
    return out, ""


COVER_MAIN = '''package main

import (
	"os"
	"testing"
)

// the harness command line follows "--"; the coverage profile is written by m.Run()
func TestMain(m *testing.M) {
	var args []string
	for i, a := range os.Args {
		if a == "--" {
			args = os.Args[i+1:]
			os.Args = os.Args[:i]
			break
		}
	}
	rc := 2
	if len(args) > 0 {
		if f, ok := commands[args[0]]; ok {
			rc = f(args[1:])
		}
	}
	devnull, _ := os.OpenFile(os.DevNull, os.O_WRONLY, 0)
	os.Stdout = devnull
	m.Run()
	os.Exit(rc)
}
'''


def _build_harness_cover(hd, out):
    covdir = os.environ["VERIF_COVER"]
    os.makedirs(covdir, exist_ok=True)
    write_if_changed(os.path.join(hd, "cover_main_test.go"), COVER_MAIN)
    binp = os.path.join(BUILD, "harness_cov.bin")
    rc, o, _ = sh(["go", "test", "-c", "-cover", "-covermode=set", "-coverpkg=github.com/alttpo/snes/...", "-o", binp, "."], cwd=hd, timeout=900)
    if rc != 0:
        return None, o
    with open(out, "w") as f:
        f.write("#!/bin/sh\nexec %s -test.coverprofile=%s/p.$$.$(date +%%s%%N) -- \"$@\"\n" % (binp, covdir))
    os.chmod(out, 0o755)
    return out, ""


def parse_assumptions(out):
    """Extract the text printed by `Print Assumptions` commands from a coqc log."""
    blocks = []
    cur = None
    for line in out.splitlines():
        if line.startswith("Axioms:") or line.startswith("Closed under the global context"):
            if cur is not None:
                blocks.append("\n".join(cur))
            cur = [line]
        elif cur is not None:
            cur.append(line)
    if cur is not None:
        blocks.append("\n".join(cur))
    return blocks


# axioms/primitives that may appear under Print Assumptions: primitive 63-bit integers and the
# standard library's own axiomatisation of them (Coq.Numbers.Cyclic.Int63.Uint63)
ALLOWED_ASSUMPTIONS = {
    "int", "add", "sub", "mul", "div", "mod", "land", "lor", "lxor", "lsl", "lsr", "eqb", "ltb", "leb",
    "of_to_Z", "ltb_spec", "leb_spec", "lsr_spec", "lsl_spec", "eqb_correct", "eqb_refl", "add_spec", "sub_spec",
    "mul_spec", "land_spec", "lor_spec", "lxor_spec", "div_spec", "mod_spec", "to_Z_rec_bounded", "eqb_spec",
    "compare", "compare_def_spec", "head0", "tail0", "addc", "subc", "mulc", "diveucl", "addmuldiv",
}


def foreign_assumptions(blocks):
    """Names listed under Print Assumptions that are not Uint63 primitives / stdlib Uint63 axioms."""
    bad = []
    for b in blocks:
        for line in b.splitlines():
            m = re.match(r"^([A-Za-z_][A-Za-z0-9_'.]*)\s*(:|$)", line)
            if m and m.group(1) not in ("Axioms", "Closed"):
                name = m.group(1).split(".")[-1]
                if name not in ALLOWED_ASSUMPTIONS:
                    bad.append(m.group(1))
    return sorted(set(bad))


def load_known():
    known, fixed = [], []
    p = os.path.join(ROOT, "known_findings.txt")
    if os.path.exists(p):
        for line in open(p):
            line = line.strip()
            m = re.match(r"known:\s+property=(\S+)\s+key=(\S+)\s+(.*)", line)
            if m:
                known.append({"property": m.group(1), "key": m.group(2), "text": m.group(3)})
            m = re.match(r"fixed:\s+property=(\S+)\s+(\S+)\s+(.*)", line)
            if m:
                fixed.append({"property": m.group(1), "commit": m.group(2), "text": m.group(3)})
    return known, fixed


class Check:
    def __init__(self, pid, tier, seed):
        self.pid, self.tier, self.seed = pid, tier, seed
        self.t0 = time.time()
        self.obligations = []   # (name, ok, detail)
        self.violations = []    # dict(key, kind, detail, replay)
        self.cov = {"samples": []}
        self.assumptions = []
        self.trusted = []
        self.level = "proof"
        self.known, self.fixed = load_known()

    def oblige(self, name, ok, detail=""):
        self.obligations.append({"name": name, "discharged": bool(ok), "detail": detail[-1500:] if detail else ""})
        return ok

    def violation(self, key, kind, detail, replay=None):
        """kind: counterexample | broken-theorem | broken-correspondence"""
        self.violations.append({"key": key, "kind": kind, "detail": detail, "replay": replay or {}})

    def sample(self, s):
        if len(self.cov["samples"]) < 12:
            self.cov["samples"].append(s)

    def finish(self):
        os.makedirs(REPLAYS, exist_ok=True)
        os.makedirs(os.path.join(ROOT, "evidence"), exist_ok=True)
        reported = 0
        lines = []
        # a broken obligation with no concrete counterexample recorded is still a violation
        broken = [o for o in self.obligations if not o["discharged"]]
        have_cex = any(v["kind"] == "counterexample" for v in self.violations)
        if broken and not have_cex and not self.violations:
            self.violation("obligation:" + broken[0]["name"], "broken-theorem",
                           "obligation no longer checks: " + "; ".join(o["name"] for o in broken),
                           {"obligations": broken})
        known_hit = []
        n = 0
        for v in self.violations:
            k = [e for e in self.known if e["property"] == self.pid and e["key"] == v["key"]]
            if k:
                known_hit.append(k[0])
                lines.append("KNOWN-FINDING: property=%s %s" % (self.pid, k[0]["text"]))
                continue
            n += 1
            path = os.path.join(REPLAYS, "%s-%d.json" % (self.pid, n))
            json.dump({"property": self.pid, "kind": v["kind"], "key": v["key"], "detail": v["detail"],
                       "replay": v["replay"], "tier": self.tier, "seed": self.seed,
                       "replay_cmd": "./check %s --replay %s" % (self.pid, path)}, open(path, "w"), indent=1)
            tail = "" if v["kind"] == "counterexample" else " no-failing-input-found"
            lines.append("VIOLATION property=%s replay=%s%s" % (self.pid, path, tail))
            reported += 1
        # if every violation is a known finding, broken obligations explained by them do not alarm
        cov = dict(self.cov)
        cov["obligations"] = len(self.obligations)
        cov["discharged"] = sum(1 for o in self.obligations if o["discharged"])
        cov["obligation_list"] = self.obligations
        cov.setdefault("checker_cmd", "coqc (Coq 8.16.1 kernel, vm_compute) over build/work/Run/*.v; see obligation_list")
        cov["trusted_base"] = self.trusted
        cov["print_assumptions"] = self.assumptions[:40]
        cov["known_findings_reproduced"] = [k["key"] for k in known_hit]
        ev = {"property_id": self.pid, "tier": self.tier, "seed": self.seed, "level": self.level,
              "coverage": cov, "assumptions": self.trusted, "wall_s": round(time.time() - self.t0, 2),
              "violations": reported}
        json.dump(ev, open(os.path.join(ROOT, "evidence", self.pid + ".json"), "w"), indent=1)
        for l in lines:
            print(l)
        sys.stdout.flush()
        return 1 if reported else 0
