#!/usr/bin/env python3
"""Markdown table of the independently seeded changes archived under /verif/seeded (for DESIGN.md)."""
import json, glob, os
rows = []
for m in sorted(glob.glob("/verif/seeded/*/meta.json")):
    d = json.load(open(m))
    c = d.get("confirmed_by_integrator", {})
    name = os.path.basename(os.path.dirname(m))
    for pid, r in c.get("checks", {}).items():
        if r["exit"] == 0:
            verdict = "MISSED"
        elif r["no_failing_input"] == r["violations"]:
            verdict = "caught: " + (r["first"][0]["kind"] if r["first"] else "broken obligation") + ", no failing input found"
        else:
            verdict = "caught with counterexample" + (" (" + r["first"][0]["key"] + ")" if r["first"] else "")
        rows.append("| %s | %s | %s | %s | %s |" % (name, pid, (d.get("summary") or "")[:160].replace("|", "/").replace("\n", " "),
                                                  (d.get("needs") or "")[:140].replace("|", "/").replace("\n", " "), verdict))
print("| seeded change | check | what it does | needs | result |\n|---|---|---|---|---|")
print("\n".join(rows))
