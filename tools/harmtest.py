#!/usr/bin/env python3
"""Apply one behaviour-preserving change (produced by an independent sub-agent under /tmp/harm/<g>/out/<ID>) to a scratch
copy of /repo, confirm the baseline still passes, run the check of the property against it (expected: no alarm), and
archive it under /verif/harmless/<ID>-<g>/ with the outcome."""
import json, os, shutil, subprocess, sys, time
ENV = dict(os.environ, GOFLAGS="-mod=mod", GOPROXY="off", GOSUMDB="off", GOTOOLCHAIN="local")
def sh(cmd, cwd=None, timeout=7200):
    p = subprocess.run(cmd, cwd=cwd, env=ENV, stdout=subprocess.PIPE, stderr=subprocess.STDOUT, text=True, timeout=timeout, shell=isinstance(cmd, str))
    return p.returncode, p.stdout
def main():
    src = sys.argv[1].rstrip("/")
    pid = os.path.basename(src)
    g = src.split("/")[-3]
    extra = sys.argv[2:]
    R = "/tmp/repo_harm_%s_%s" % (g, pid)
    shutil.rmtree(R, ignore_errors=True)
    sh(["cp", "-r", "/repo", R])
    ENV["VERIF_REPO"] = R
    out = {"property": pid, "group": g, "tree": "scratch copy of /repo at " + sh("git -C /repo rev-parse --short HEAD")[1].strip()}
    rc, o = sh(["git", "-C", R, "apply", os.path.join(src, "patch.diff")])
    if rc != 0:
        print("patch does not apply", o); return 2
    rc, o = sh(["python3", "/verif/tools/baseline.py", R]); out["baseline_pass_with_change"] = rc == 0
    res = {}
    for p in [pid] + extra:
        t0 = time.time()
        ev = "/verif/evidence/%s.json" % p
        keep = open(ev).read() if os.path.exists(ev) else None
        rc, o = sh(["./check", p, "--tier", "quick"], cwd="/verif")
        if keep is not None:
            open(ev, "w").write(keep)
        v = [l for l in o.splitlines() if l.startswith("VIOLATION")]
        det = []
        for l in v[:3]:
            rp = l.split("replay=")[1].split()[0]
            if os.path.exists(rp):
                d = json.load(open(rp)); det.append({"kind": d["kind"], "key": d["key"], "detail": d["detail"][:600]})
        res[p] = {"exit": rc, "violations": len(v), "no_failing_input": sum(1 for l in v if "no-failing-input-found" in l), "first": det, "secs": round(time.time() - t0)}
    out["checks"] = res
    shutil.rmtree(R, ignore_errors=True)
    dst = "/verif/harmless/%s-%s" % (pid, g)
    shutil.rmtree(dst, ignore_errors=True); os.makedirs(dst)
    shutil.copy(os.path.join(src, "patch.diff"), dst)
    meta = {}
    try: meta = json.load(open(os.path.join(src, "meta.json")))
    except Exception: pass
    meta["confirmed_by_integrator"] = out
    json.dump(meta, open(os.path.join(dst, "meta.json"), "w"), indent=1)
    print(json.dumps(out, indent=1))
main()
