#!/usr/bin/env python3
"""Run the repository's test suite (guard off) and compare with /root/.vp/BASELINE.json stable_pass."""
import json, os, subprocess, sys
repo = sys.argv[1] if len(sys.argv) > 1 else "/repo"
env = dict(os.environ, GOFLAGS="-mod=mod", GOPROXY="off", GOSUMDB="off", GOTOOLCHAIN="local")
p = subprocess.run(["go", "test", "-json", "-vet=off", "-count=1", "-timeout", "25m", "./..."], cwd=repo, env=env,
                   stdout=subprocess.PIPE, stderr=subprocess.STDOUT, text=True)
res = {}
for line in p.stdout.splitlines():
    try:
        e = json.loads(line)
    except Exception:
        continue
    if e.get("Test") and e.get("Action") in ("pass", "fail", "skip"):
        res[e["Package"] + "::" + e["Test"]] = e["Action"]
base = json.load(open("/root/.vp/BASELINE.json"))["stable_pass"]
bad = [t for t in base if res.get(t) != "pass"]
print("stable_pass: %d, passing now: %d, total pass now: %d" % (len(base), len(base) - len(bad), sum(1 for v in res.values() if v == "pass")))
for t in bad[:20]:
    print("NOT PASSING:", t, res.get(t))
sys.exit(1 if bad else 0)
