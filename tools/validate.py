#!/usr/bin/env python3-vt
import json, jsonschema, sys, glob
jsonschema.validate(json.load(open('/verif/MANIFEST.json')), json.load(open('/root/.vp/MANIFEST.schema.json')))
sch = json.load(open('/root/.vp/EVIDENCE.schema.json'))
for f in sorted(glob.glob('/verif/evidence/*.json')):
    jsonschema.validate(json.load(open(f)), sch)
    print('ok', f)
print('manifest ok')
