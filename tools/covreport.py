#!/usr/bin/env python3
"""Diagnostic (not evidence): which statements of /repo do the ties and falsifiers of the quick tier execute?
Runs the quick checks given on the command line (default: all) with the harness built as a coverage-instrumented
binary (vlib: VERIF_COVER), merges the profiles and prints, per source file, the functions with unexecuted blocks.
Evidence files are restored afterwards."""
import os, subprocess, sys, glob, shutil, collections, re
ROOT = os.path.dirname(os.path.dirname(os.path.abspath(__file__)))
cov = "/tmp/verif_cover"
shutil.rmtree(cov, ignore_errors=True)
os.makedirs(cov)
ids = sys.argv[1:] or ["C%02d" % i for i in range(1, 20)]
env = dict(os.environ, VERIF_COVER=cov)
keep = {p: open(p).read() for p in glob.glob(os.path.join(ROOT, "evidence", "*.json"))}
for pid in ids:
    r = subprocess.run(["./check", pid, "--tier", "quick"], cwd=ROOT, env=env, stdout=subprocess.PIPE, stderr=subprocess.STDOUT, text=True)
    print(pid, "exit", r.returncode, [l for l in r.stdout.splitlines() if l.startswith("VIOLATION")][:2], flush=True)
for p, t in keep.items():
    open(p, "w").write(t)
# leave the normal binary behind
subprocess.run(["python3", "-c", "import vlib; vlib.build_harness()"], cwd=ROOT)
hit = collections.defaultdict(int)
for f in glob.glob(cov + "/p.*"):
    for line in open(f):
        if line.startswith("mode:"):
            continue
        blk, n, c = line.rsplit(" ", 2)
        hit[blk] = max(hit[blk], int(c))
perfile = collections.defaultdict(list)
for blk, c in hit.items():
    fn, rng = blk.split(":")
    perfile[fn].append((tuple(int(x) for x in re.split("[.,]", rng)), c))
repo = os.environ.get("VERIF_REPO", "/repo")
tot = un = 0
for fn in sorted(perfile):
    rel = fn.replace("github.com/alttpo/snes/", "")
    if rel.endswith("_test.go"):
        continue
    src = open(os.path.join(repo, rel)).read().splitlines()
    miss = sorted(b for b, c in perfile[fn] if c == 0)
    tot += len(perfile[fn]); un += len(miss)
    print("== %s: %d blocks, %d never executed" % (rel, len(perfile[fn]), len(miss)))
    # name the enclosing function of each missed block
    funcs = collections.OrderedDict()
    for (l0, c0, l1, c1) in miss:
        k = l0
        while k > 0 and not src[k - 1].startswith("func "):
            k -= 1
        name = src[k - 1][:90] if k > 0 else "?"
        funcs.setdefault(name, []).append("%d-%d" % (l0, l1))
    for name, ls in funcs.items():
        print("   %s   lines %s" % (name, " ".join(ls[:12]) + (" ..." if len(ls) > 12 else "")))
print("TOTAL blocks %d, never executed %d" % (tot, un))
shutil.rmtree(cov, ignore_errors=True)
