// Command globals: conservative may-write analysis of package-level variables, for property C18.
//
//	globals -repo /repo -out DIR
//
// Loads every non-test, non-main package below -repo (go/parser + go/types from source, the standard
// library through the "source" importer; no `go list`, no network), builds go/ssa for them and writes
// DIR/GenGlobals.v:
//
//	packages, globals (package, name, kind, type), writers (global, function, position, how),
//	unsafe_features (importers of unsafe / C, assembly files, go:linkname), and informational lists.
//
// A "writer" is an instruction OUTSIDE the package initialisers that MAY write memory reachable from a
// package-level variable of the analysed packages, or that lets a reference to such memory escape to
// code the analysis does not see:
//
//	store / inc-dec through an address derived from the variable (field, index, slice, load of a
//	pointer/slice/map held in it ...), map update, delete, clear, append with it as first operand
//	(append may write into spare capacity), copy with it as destination, channel send/close;
//	passing such a reference to a callee whose may-write summary for that parameter is non-empty
//	(library callees: computed to a fixpoint; interface calls: all library implementations;
//	function values and callees outside the analysed packages: assumed to write, except a short
//	visible allow-list of read-only standard-library functions);
//	storing such a reference into memory that is not a fresh local object; returning it from an
//	exported function.
//
// Precision that the present tree needs and gets: reads (loads through derived addresses), slicing a
// global array as the *source* of a read-only callee (`xb.Sb(spaces[5:13])`: Sb only indexes and
// measures its parameter), values copied out of a table (`instructions[op].mode`), pointers to
// zero-size types (`alwaysErrorInstance`), `error` values loaded from a variable and returned
// (`ErrUnmappedAddress`: an interface value of static type error is not by itself a way to write).
//
// Not seen by this analysis (stated in the generated file as well): writes through reflection on
// values it did not see escaping, package unsafe, cgo, assembly, go:linkname.  Their presence in the
// analysed packages is reported in unsafe_features, which the check requires to be empty.
package main

import (
	"flag"
	"fmt"
	"go/ast"
	"go/build"
	"go/importer"
	"go/parser"
	"go/token"
	"go/types"
	"os"
	"path/filepath"
	"sort"
	"strings"

	"golang.org/x/tools/go/ssa"
)

// ---------------------------------------------------------------------------------------------
// loading

type lpkg struct {
	path  string
	rel   string
	dir   string
	files []*ast.File
	pkg   *types.Package
	info  *types.Info
	bp    *build.Package
}

type loader struct {
	root    string
	modPath string
	fset    *token.FileSet
	std     types.Importer
	pkgs    map[string]*lpkg
	order   []*lpkg // dependency order
}

func (l *loader) Import(path string) (*types.Package, error) {
	if path == l.modPath || strings.HasPrefix(path, l.modPath+"/") {
		p, err := l.load(path)
		if err != nil {
			return nil, err
		}
		return p.pkg, nil
	}
	return l.std.Import(path)
}

func (l *loader) load(path string) (*lpkg, error) {
	if p, ok := l.pkgs[path]; ok {
		if p == nil {
			return nil, fmt.Errorf("import cycle through %s", path)
		}
		return p, nil
	}
	l.pkgs[path] = nil
	rel := strings.TrimPrefix(strings.TrimPrefix(path, l.modPath), "/")
	dir := filepath.Join(l.root, rel)
	ctxt := build.Default
	bp, err := ctxt.ImportDir(dir, 0)
	if err != nil {
		return nil, fmt.Errorf("%s: %v", path, err)
	}
	p := &lpkg{path: path, rel: rel, dir: dir, bp: bp}
	names := append([]string{}, bp.GoFiles...)
	names = append(names, bp.CgoFiles...)
	sort.Strings(names)
	for _, n := range names {
		f, err := parser.ParseFile(l.fset, filepath.Join(dir, n), nil, parser.ParseComments)
		if err != nil {
			return nil, err
		}
		p.files = append(p.files, f)
	}
	p.info = &types.Info{
		Types:      map[ast.Expr]types.TypeAndValue{},
		Defs:       map[*ast.Ident]types.Object{},
		Uses:       map[*ast.Ident]types.Object{},
		Implicits:  map[ast.Node]types.Object{},
		Selections: map[*ast.SelectorExpr]*types.Selection{},
		Scopes:     map[ast.Node]*types.Scope{},
		Instances:  map[*ast.Ident]types.Instance{},
	}
	var firstErr error
	conf := types.Config{Importer: l, FakeImportC: true, Error: func(err error) {
		if firstErr == nil {
			firstErr = err
		}
	}}
	pkg, _ := conf.Check(path, l.fset, p.files, p.info)
	if firstErr != nil {
		return nil, fmt.Errorf("type-check %s: %v", path, firstErr)
	}
	p.pkg = pkg
	l.pkgs[path] = p
	l.order = append(l.order, p)
	return p, nil
}

func readModPath(root string) string {
	b, err := os.ReadFile(filepath.Join(root, "go.mod"))
	if err != nil {
		return "github.com/alttpo/snes"
	}
	for _, line := range strings.Split(string(b), "\n") {
		line = strings.TrimSpace(line)
		if strings.HasPrefix(line, "module ") {
			return strings.TrimSpace(strings.TrimPrefix(line, "module "))
		}
	}
	return "github.com/alttpo/snes"
}

// discover returns the import paths of all library packages under root, and the skipped directories.
func discover(root, mod string) (paths []string, skipped []string) {
	filepath.Walk(root, func(p string, fi os.FileInfo, err error) error {
		if err != nil || !fi.IsDir() {
			return nil
		}
		base := filepath.Base(p)
		if p != root && (strings.HasPrefix(base, ".") || strings.HasPrefix(base, "_") || base == "testdata" || base == "vendor") {
			return filepath.SkipDir
		}
		bp, err := build.Default.ImportDir(p, 0)
		if err != nil {
			if _, nogo := err.(*build.NoGoError); !nogo {
				// a directory with Go files that cannot be classified is reported, not ignored
				if ents, _ := filepath.Glob(filepath.Join(p, "*.go")); len(ents) > 0 {
					only := true
					for _, e := range ents {
						if !strings.HasSuffix(e, "_test.go") {
							only = false
						}
					}
					if !only {
						skipped = append(skipped, p+": "+err.Error())
					}
				}
			}
			return nil
		}
		if len(bp.GoFiles)+len(bp.CgoFiles) == 0 {
			return nil
		}
		rel, _ := filepath.Rel(root, p)
		if bp.Name == "main" {
			skipped = append(skipped, rel+": package main (not a library package)")
			return nil
		}
		ip := mod
		if rel != "." {
			ip = mod + "/" + filepath.ToSlash(rel)
		}
		paths = append(paths, ip)
		return nil
	})
	sort.Strings(paths)
	return
}

// ---------------------------------------------------------------------------------------------
// types

func zeroSize(t types.Type) bool {
	switch u := t.Underlying().(type) {
	case *types.Struct:
		for i := 0; i < u.NumFields(); i++ {
			if !zeroSize(u.Field(i).Type()) {
				return false
			}
		}
		return true
	case *types.Array:
		return u.Len() == 0 || zeroSize(u.Elem())
	}
	return false
}

var errorType = types.Universe.Lookup("error").Type()

// mayRef: a value of this type may carry a reference through which memory can be written.
// definite=false counts an interface of static type `error` as "maybe" only.
func refKind(t types.Type, seen map[types.Type]bool) (may, definite bool) {
	if seen[t] {
		return false, false
	}
	seen[t] = true
	defer delete(seen, t)
	if types.Identical(t, errorType) {
		return true, false
	}
	switch u := t.Underlying().(type) {
	case *types.Pointer:
		if zeroSize(u.Elem()) {
			return false, false
		}
		return true, true
	case *types.Slice, *types.Map, *types.Chan:
		return true, true
	case *types.Interface:
		return true, true
	case *types.Struct:
		for i := 0; i < u.NumFields(); i++ {
			m, d := refKind(u.Field(i).Type(), seen)
			may = may || m
			definite = definite || d
		}
		return
	case *types.Array:
		if u.Len() == 0 {
			return false, false
		}
		return refKind(u.Elem(), seen)
	case *types.Tuple:
		for i := 0; i < u.Len(); i++ {
			m, d := refKind(u.At(i).Type(), seen)
			may = may || m
			definite = definite || d
		}
		return
	case *types.Basic:
		if u.Kind() == types.UnsafePointer {
			return true, true
		}
		return false, false
	case *types.Signature:
		return false, false
	}
	return true, true // type parameters and anything unforeseen
}

func mayRef(t types.Type) bool      { m, _ := refKind(t, map[types.Type]bool{}); return m }
func definiteRef(t types.Type) bool { _, d := refKind(t, map[types.Type]bool{}); return d }
func elemMayRef(t types.Type) bool {
	switch u := t.Underlying().(type) {
	case *types.Slice:
		return mayRef(u.Elem())
	case *types.Array:
		return mayRef(u.Elem())
	case *types.Pointer:
		return elemMayRef(u.Elem())
	case *types.Map:
		return mayRef(u.Elem()) || mayRef(u.Key())
	case *types.Chan:
		return mayRef(u.Elem())
	}
	return false
}

func typeKind(t types.Type) string {
	switch u := t.Underlying().(type) {
	case *types.Array:
		return "array"
	case *types.Slice:
		return "slice"
	case *types.Map:
		return "map"
	case *types.Pointer:
		return "pointer"
	case *types.Interface:
		return "interface"
	case *types.Struct:
		return "struct"
	case *types.Chan:
		return "chan"
	case *types.Signature:
		return "func"
	case *types.Basic:
		return "basic:" + u.Name()
	}
	return "other"
}

// ---------------------------------------------------------------------------------------------
// analysis

// taint: source id -> definite.  id >= 0: index into an.globals; id < 0: parameter/free variable -(id+1)
// of the function being analysed.
type taint map[int]bool

type summary struct {
	nsrc       int          // parameters + free variables
	writes     []string     // per source: "" or the reason the callee may write / leak it
	ret        []bool       // per source: flows into a result
	retGlobals map[int]bool // globals flowing into a result (-> definite)
}

type writer struct {
	global int
	fn     string
	pos    string
	how    string
}

type analysis struct {
	prog     *ssa.Program
	fset     *token.FileSet
	root     string
	libPkgs  map[*ssa.Package]bool
	libTypes map[*types.Package]bool
	globals  []*ssa.Global
	gid      map[*ssa.Global]int
	fns      []*ssa.Function
	sums     map[*ssa.Function]*summary
	changed  bool
	writers  map[writer]bool
	assumed  map[string]bool // allow-listed external calls that received a global-derived reference
	shared   map[string]bool // calls into standard-library packages with process-wide state
	named    []types.Type    // library named types and their pointer types (for interface calls)
}

func (an *analysis) pkgOf(fn *ssa.Function) *ssa.Package {
	for f := fn; f != nil; f = f.Parent() {
		if f.Pkg != nil {
			return f.Pkg
		}
		if o := f.Object(); o != nil && o.Pkg() != nil {
			if p := an.prog.Package(o.Pkg()); p != nil {
				return p
			}
		}
	}
	return nil
}

func (an *analysis) isLib(fn *ssa.Function) bool {
	return fn != nil && len(fn.Blocks) > 0 && an.libPkgs[an.pkgOf(fn)]
}

func isInit(fn *ssa.Function) bool {
	if fn.Parent() != nil {
		return false
	}
	n := fn.Name()
	return n == "init" || strings.HasPrefix(n, "init#")
}

func (an *analysis) position(fn *ssa.Function, ins ssa.Instruction) string {
	pos := ins.Pos()
	if !pos.IsValid() {
		// nearest earlier instruction of the block with a position, else the function
		if b := ins.Block(); b != nil {
			for _, j := range b.Instrs {
				if j == ins {
					break
				}
				if j.Pos().IsValid() {
					pos = j.Pos()
				}
			}
		}
		if !pos.IsValid() {
			for f := fn; f != nil && !pos.IsValid(); f = f.Parent() {
				pos = f.Pos()
			}
		}
	}
	if !pos.IsValid() {
		return "?"
	}
	pp := an.fset.Position(pos)
	rel, err := filepath.Rel(an.root, pp.Filename)
	if err != nil {
		rel = pp.Filename
	}
	return fmt.Sprintf("%s:%d", filepath.ToSlash(rel), pp.Line)
}

func (an *analysis) sum(fn *ssa.Function) *summary {
	s := an.sums[fn]
	if s == nil {
		n := len(fn.Params) + len(fn.FreeVars)
		s = &summary{nsrc: n, writes: make([]string, n), ret: make([]bool, n), retGlobals: map[int]bool{}}
		an.sums[fn] = s
	}
	return s
}

// allow-list of callees outside the analysed packages that only READ what the given argument refers to.
// key: ssa function string or "invoke:<iface>.<method>"; value: first argument index (receiver = 0 for
// methods) from which arguments are read-only; -1 = every argument.
var readOnlyExternal = map[string]int{
	"fmt.Sprintf": -1, "fmt.Sprint": -1, "fmt.Sprintln": -1, "fmt.Errorf": -1,
	"fmt.Fprintf": 1, "fmt.Fprint": 1, "fmt.Fprintln": 1,
	"log.Println": -1, "log.Printf": -1, "log.Print": -1, "log.Fatalf": -1, "log.Fatal": -1,
	"bytes.Equal": -1, "bytes.Compare": -1, "bytes.NewReader": -1, "bytes.HasPrefix": -1, "bytes.Index": -1,
	"errors.Is": -1, "errors.Unwrap": -1,
	"(*bytes.Buffer).Write": 1, "(*bytes.Buffer).WriteString": 1, "(*strings.Builder).Write": 1,
	"io.WriteString":             1,
	"invoke:io.Writer.Write":     1, // contract of io.Writer: "Write must not modify the slice data, even temporarily"
	"invoke:error.Error":         0,
	"invoke:fmt.Stringer.String": 0,
}

// standard-library packages whose package-level functions act on process-wide state
var sharedStatePkgs = map[string]bool{"log": true, "math/rand": true, "os": true, "flag": true, "time": false}

type fstate struct {
	an    *analysis
	fn    *ssa.Function
	sm    *summary
	t     map[ssa.Value]taint
	dirty bool
}

func (fs *fstate) get(v ssa.Value) taint {
	switch x := v.(type) {
	case *ssa.Global:
		if id, ok := fs.an.gid[x]; ok {
			return taint{id: true}
		}
		return nil
	case *ssa.Parameter:
		if !mayRef(x.Type()) {
			return nil
		}
		for i, p := range fs.fn.Params {
			if p == x {
				return taint{-(i + 1): true}
			}
		}
	case *ssa.FreeVar:
		if !mayRef(x.Type()) {
			return nil
		}
		for i, p := range fs.fn.FreeVars {
			if p == x {
				return taint{-(len(fs.fn.Params) + i + 1): true}
			}
		}
	}
	return fs.t[v]
}

// add merges src into the taint of v.  inherit: keep the "definite" flag of the source when the static
// type of v alone does not decide (interfaces of type error); load-like producers pass inherit=false.
func (fs *fstate) add(v ssa.Value, src taint, inherit bool) {
	if len(src) == 0 || !mayRef(v.Type()) {
		return
	}
	def := definiteRef(v.Type())
	cur := fs.t[v]
	if cur == nil {
		cur = taint{}
		fs.t[v] = cur
	}
	for id, d := range src {
		nd := def || id < 0 || (inherit && d)
		old, ok := cur[id]
		if !ok || (nd && !old) {
			cur[id] = old || nd
			fs.dirty = true
		}
	}
}

// fresh: v certainly points into an object created by this activation (so a store through it is not
// a store into a global or into caller-owned memory).
func fresh(v ssa.Value, depth int) bool {
	if depth > 20 {
		return false
	}
	switch x := v.(type) {
	case *ssa.Alloc, *ssa.MakeSlice, *ssa.MakeMap, *ssa.MakeChan:
		return true
	case *ssa.FieldAddr:
		return fresh(x.X, depth+1)
	case *ssa.IndexAddr:
		return fresh(x.X, depth+1)
	case *ssa.Slice:
		return fresh(x.X, depth+1)
	case *ssa.ChangeType:
		return fresh(x.X, depth+1)
	case *ssa.SliceToArrayPointer:
		return fresh(x.X, depth+1)
	case *ssa.Phi:
		for _, e := range x.Edges {
			if e == v {
				continue
			}
			if !fresh(e, depth+1) {
				return false
			}
		}
		return true
	case *ssa.Const:
		return true // nil
	case *ssa.Call:
		if b, ok := x.Call.Value.(*ssa.Builtin); ok && b.Name() == "append" {
			return fresh(x.Call.Args[0], depth+1)
		}
	}
	return false
}

// freshRoot returns the local object a fresh address is derived from.
func freshRoots(v ssa.Value, depth int, out *[]ssa.Value) {
	if depth > 20 {
		return
	}
	switch x := v.(type) {
	case *ssa.Alloc, *ssa.MakeSlice, *ssa.MakeMap, *ssa.MakeChan:
		*out = append(*out, v)
	case *ssa.FieldAddr:
		freshRoots(x.X, depth+1, out)
	case *ssa.IndexAddr:
		freshRoots(x.X, depth+1, out)
	case *ssa.Slice:
		freshRoots(x.X, depth+1, out)
	case *ssa.ChangeType:
		freshRoots(x.X, depth+1, out)
	case *ssa.SliceToArrayPointer:
		freshRoots(x.X, depth+1, out)
	case *ssa.Phi:
		for _, e := range x.Edges {
			if e != v {
				freshRoots(e, depth+1, out)
			}
		}
	case *ssa.Call:
		if b, ok := x.Call.Value.(*ssa.Builtin); ok && b.Name() == "append" {
			freshRoots(x.Call.Args[0], depth+1, out)
		}
	}
}

// sink: the instruction may write (or leaks) whatever v refers to.  onlyDefinite: ignore "maybe"
// sources (error-typed interface values) -- used for escapes, not for stores.
func (fs *fstate) sink(ins ssa.Instruction, v ssa.Value, how string, onlyDefinite bool) {
	for id, d := range fs.get(v) {
		if onlyDefinite && !d {
			continue
		}
		if id >= 0 {
			if isInit(fs.fn) {
				continue
			}
			w := writer{global: id, fn: fs.fn.String(), pos: fs.an.position(fs.fn, ins), how: how}
			if !fs.an.writers[w] {
				fs.an.writers[w] = true
			}
		} else {
			i := -(id + 1)
			if fs.sm.writes[i] == "" {
				fs.sm.writes[i] = how + " at " + fs.an.position(fs.fn, ins)
				fs.an.changed = true
			}
		}
	}
}

// escapeStore: value val is stored into memory at addr.
func (fs *fstate) storeValue(ins ssa.Instruction, addr, val ssa.Value, what string) {
	tv := fs.get(val)
	if len(tv) == 0 {
		return
	}
	if fresh(addr, 0) {
		var roots []ssa.Value
		freshRoots(addr, 0, &roots)
		for _, r := range roots {
			fs.addRaw(r, tv)
		}
		return
	}
	fs.sink(ins, val, "reference stored into non-local memory ("+what+")", true)
}

// addRaw: taint on a local object (what it holds); no type filter on the holder.
func (fs *fstate) addRaw(v ssa.Value, src taint) {
	cur := fs.t[v]
	if cur == nil {
		cur = taint{}
		fs.t[v] = cur
	}
	for id, d := range src {
		old, ok := cur[id]
		if !ok || (d && !old) {
			cur[id] = old || d
			fs.dirty = true
		}
	}
}

func (fs *fstate) implementers(recv types.Type, m *types.Func) []*ssa.Function {
	iface, ok := recv.Underlying().(*types.Interface)
	if !ok {
		return nil
	}
	var out []*ssa.Function
	for _, T := range fs.an.named {
		if types.IsInterface(T) || !types.Implements(T, iface) {
			continue
		}
		sel := fs.an.prog.MethodSets.MethodSet(T).Lookup(m.Pkg(), m.Name())
		if sel == nil {
			continue
		}
		if f := fs.an.prog.MethodValue(sel); f != nil {
			out = append(out, f)
		}
	}
	return out
}

func (fs *fstate) applySummary(ins ssa.Instruction, callee *ssa.Function, args []ssa.Value, res ssa.Value) {
	sm := fs.an.sum(callee)
	for i, a := range args {
		if i >= sm.nsrc {
			break
		}
		if sm.writes[i] != "" {
			fs.sink(ins, a, "passed to "+callee.String()+" which may write it ("+sm.writes[i]+")", false)
		}
		if res != nil && sm.ret[i] {
			fs.add(res, fs.get(a), true)
		}
	}
	if res != nil && len(sm.retGlobals) > 0 {
		t := taint{}
		for g, d := range sm.retGlobals {
			t[g] = d
		}
		fs.add(res, t, true)
	}
}

func (fs *fstate) call(ins ssa.Instruction, cc *ssa.CallCommon, res ssa.Value) {
	an := fs.an
	if b, ok := cc.Value.(*ssa.Builtin); ok {
		switch b.Name() {
		case "append":
			if !fresh(cc.Args[0], 0) {
				fs.sink(ins, cc.Args[0], "append to it (may write spare capacity)", false)
			}
			if res != nil {
				fs.add(res, fs.get(cc.Args[0]), true)
				if len(cc.Args) > 1 && elemMayRef(cc.Args[0].Type()) {
					fs.add(res, fs.get(cc.Args[1]), true)
				}
			}
		case "copy":
			if !fresh(cc.Args[0], 0) {
				fs.sink(ins, cc.Args[0], "copy into it", false)
			}
			if elemMayRef(cc.Args[0].Type()) {
				fs.storeValue(ins, cc.Args[0], cc.Args[1], "copy of references")
			}
		case "delete":
			if !fresh(cc.Args[0], 0) {
				fs.sink(ins, cc.Args[0], "delete from map", false)
			}
		case "clear":
			if !fresh(cc.Args[0], 0) {
				fs.sink(ins, cc.Args[0], "clear", false)
			}
		case "close":
			fs.sink(ins, cc.Args[0], "close of channel", false)
		case "ssa:wrapnilchk":
			if res != nil {
				fs.add(res, fs.get(cc.Args[0]), true)
			}
		}
		return
	}
	if cc.IsInvoke() {
		args := append([]ssa.Value{cc.Value}, cc.Args...)
		impls := fs.implementers(cc.Value.Type(), cc.Method)
		for _, f := range impls {
			if an.isLib(f) {
				fs.applySummary(ins, f, args, res)
			}
		}
		// implementations outside the analysed packages
		declaredInLib := cc.Method.Pkg() != nil && an.libTypes[cc.Method.Pkg()]
		if !declaredInLib {
			key := "invoke:" + ifaceName(cc.Value.Type()) + "." + cc.Method.Name()
			from, allowed := readOnlyExternal[key]
			for i, a := range args {
				if len(fs.get(a)) == 0 {
					continue
				}
				if allowed && (from == -1 || i >= from) && !(i == 0 && from > 0) {
					fs.noteAssumed(ins, a, key)
					continue
				}
				if i == 0 {
					// a method of unknown implementation invoked on a global-derived value
					fs.sink(ins, a, "method "+key[7:]+" invoked on it (implementation not analysed)", false)
				} else {
					fs.sink(ins, a, "passed to "+key[7:]+" (implementation not analysed)", true)
				}
			}
		}
		if res != nil {
			for _, a := range args {
				fs.add(res, fs.get(a), false)
			}
		}
		return
	}
	callee := cc.StaticCallee()
	if callee != nil && an.isLib(callee) {
		args := cc.Args
		fs.applySummary(ins, callee, args, res)
		if mc, ok := cc.Value.(*ssa.MakeClosure); ok && res != nil {
			sm := an.sum(callee)
			for k, bnd := range mc.Bindings {
				if idx := len(callee.Params) + k; idx < sm.nsrc && sm.ret[idx] {
					fs.add(res, fs.get(bnd), true)
				}
			}
		}
		return
	}
	if callee != nil {
		// outside the analysed packages (no body)
		name := callee.String()
		if p := callee.Pkg; p != nil && sharedStatePkgs[p.Pkg.Path()] && callee.Signature.Recv() == nil && !isInit(fs.fn) {
			an.shared[name+" called at "+an.position(fs.fn, ins)] = true
		}
		from, allowed := readOnlyExternal[name]
		for i, a := range cc.Args {
			if len(fs.get(a)) == 0 {
				continue
			}
			if allowed && (from == -1 || i >= from) {
				fs.noteAssumed(ins, a, name)
				continue
			}
			fs.sink(ins, a, "passed to "+name+" (outside the analysed packages)", true)
		}
		if res != nil {
			for _, a := range cc.Args {
				fs.add(res, fs.get(a), true)
			}
		}
		return
	}
	// function value
	for _, a := range cc.Args {
		fs.sink(ins, a, "passed to a function value (callee unknown)", true)
	}
	if res != nil {
		for _, a := range cc.Args {
			fs.add(res, fs.get(a), true)
		}
	}
}

func ifaceName(t types.Type) string {
	if n, ok := t.(*types.Named); ok {
		if n.Obj().Pkg() == nil {
			return n.Obj().Name()
		}
		return n.Obj().Pkg().Path() + "." + n.Obj().Name()
	}
	return t.String()
}

func (fs *fstate) noteAssumed(ins ssa.Instruction, v ssa.Value, callee string) {
	for id := range fs.get(v) {
		if id >= 0 && !isInit(fs.fn) {
			g := fs.an.globals[id]
			fs.an.assumed[fmt.Sprintf("%s.%s read by %s at %s", g.Pkg.Pkg.Path(), g.Name(), callee, fs.an.position(fs.fn, ins))] = true
		}
	}
}

func exportedAPI(fn *ssa.Function) bool {
	if fn.Parent() != nil || fn.Synthetic != "" {
		return false
	}
	return ast.IsExported(fn.Name())
}

func (fs *fstate) instr(ins ssa.Instruction) {
	switch x := ins.(type) {
	case *ssa.FieldAddr:
		fs.add(x, fs.get(x.X), true)
	case *ssa.IndexAddr:
		fs.add(x, fs.get(x.X), true)
	case *ssa.Slice:
		fs.add(x, fs.get(x.X), true)
	case *ssa.Field:
		fs.add(x, fs.get(x.X), false)
	case *ssa.Index:
		fs.add(x, fs.get(x.X), false)
	case *ssa.Lookup:
		fs.add(x, fs.get(x.X), false)
	case *ssa.UnOp:
		if x.Op == token.MUL || x.Op == token.ARROW {
			fs.add(x, fs.get(x.X), false)
		}
	case *ssa.Phi:
		for _, e := range x.Edges {
			fs.add(x, fs.get(e), true)
		}
	case *ssa.ChangeType:
		fs.add(x, fs.get(x.X), true)
	case *ssa.Convert:
		fs.add(x, fs.get(x.X), true)
	case *ssa.MultiConvert:
		fs.add(x, fs.get(x.X), true)
	case *ssa.ChangeInterface:
		fs.add(x, fs.get(x.X), true)
	case *ssa.MakeInterface:
		fs.add(x, fs.get(x.X), true)
	case *ssa.SliceToArrayPointer:
		fs.add(x, fs.get(x.X), true)
	case *ssa.TypeAssert:
		fs.add(x, fs.get(x.X), true)
	case *ssa.Extract:
		fs.add(x, fs.get(x.Tuple), true)
	case *ssa.Range:
		fs.addRaw(x, fs.get(x.X))
	case *ssa.Next:
		fs.add(x, fs.get(x.Iter), false)
	case *ssa.Select:
		for _, st := range x.States {
			if st.Dir == types.SendOnly {
				fs.sink(ins, st.Chan, "channel send", false)
				fs.sink(ins, st.Send, "reference sent on a channel", true)
			} else {
				fs.add(x, fs.get(st.Chan), false)
			}
		}
	case *ssa.MakeClosure:
		callee, _ := x.Fn.(*ssa.Function)
		if callee != nil {
			sm := fs.an.sum(callee)
			for k, bnd := range x.Bindings {
				idx := len(callee.Params) + k
				if idx < sm.nsrc && sm.writes[idx] != "" {
					fs.sink(ins, bnd, "captured by "+callee.String()+" which may write it ("+sm.writes[idx]+")", false)
				}
			}
		}
	case *ssa.Call:
		fs.call(ins, &x.Call, x)
	case *ssa.Go:
		fs.call(ins, &x.Call, nil)
	case *ssa.Defer:
		fs.call(ins, &x.Call, nil)
	case *ssa.Store:
		if !fresh(x.Addr, 0) {
			fs.sink(ins, x.Addr, "store", false)
		}
		fs.storeValue(ins, x.Addr, x.Val, "store")
	case *ssa.MapUpdate:
		if !fresh(x.Map, 0) {
			fs.sink(ins, x.Map, "map update", false)
		}
		fs.storeValue(ins, x.Map, x.Value, "map value")
		fs.storeValue(ins, x.Map, x.Key, "map key")
	case *ssa.Send:
		fs.sink(ins, x.Chan, "channel send", false)
		fs.sink(ins, x.X, "reference sent on a channel", true)
	case *ssa.Return:
		for _, r := range x.Results {
			for id, d := range fs.get(r) {
				if id >= 0 {
					if old, ok := fs.sm.retGlobals[id]; !ok || (d && !old) {
						fs.sm.retGlobals[id] = old || d
						fs.an.changed = true
					}
				} else if i := -(id + 1); !fs.sm.ret[i] {
					fs.sm.ret[i] = true
					fs.an.changed = true
				}
			}
			if exportedAPI(fs.fn) {
				// only global sources matter here; parameters go back to the caller that owns them
				for id, d := range fs.get(r) {
					if id >= 0 && d && !isInit(fs.fn) {
						w := writer{global: id, fn: fs.fn.String(), pos: fs.an.position(fs.fn, ins), how: "writable reference returned from an exported function"}
						fs.an.writers[w] = true
					}
				}
			}
		}
	}
}

func (an *analysis) analyze(fn *ssa.Function) {
	fs := &fstate{an: an, fn: fn, sm: an.sum(fn), t: map[ssa.Value]taint{}}
	for pass := 0; pass < 50; pass++ {
		fs.dirty = false
		for _, b := range fn.Blocks {
			for _, ins := range b.Instrs {
				fs.instr(ins)
			}
		}
		if !fs.dirty {
			break
		}
	}
}

// ---------------------------------------------------------------------------------------------
// output

func q(s string) string { return "\"" + strings.ReplaceAll(s, "\"", "'") + "\"" }

func coqList(items []string, indent string) string {
	if len(items) == 0 {
		return "[]"
	}
	return "[\n" + indent + strings.Join(items, ";\n"+indent) + "\n]"
}

func main() {
	repo := flag.String("repo", "/repo", "repository root")
	out := flag.String("out", "", "output directory")
	flag.Parse()
	if *out == "" {
		fmt.Fprintln(os.Stderr, "globals: -out required")
		os.Exit(2)
	}
	os.MkdirAll(*out, 0o755)
	fail := func(msg string) {
		os.WriteFile(filepath.Join(*out, "GenGlobals.err"), []byte(msg+"\n"), 0o644)
		fmt.Fprintln(os.Stderr, "globals:", msg)
		os.Exit(3)
	}
	root, _ := filepath.Abs(*repo)
	mod := readModPath(root)
	fset := token.NewFileSet()
	l := &loader{root: root, modPath: mod, fset: fset, std: importer.ForCompiler(fset, "source", nil), pkgs: map[string]*lpkg{}}
	paths, skipped := discover(root, mod)
	if len(paths) == 0 {
		fail("no library packages found under " + root)
	}
	for _, p := range paths {
		if _, err := l.load(p); err != nil {
			fail(err.Error())
		}
	}

	// SSA: bodies for the library packages, declarations only for everything they import
	prog := ssa.NewProgram(fset, 0)
	lib := map[*types.Package]bool{}
	for _, p := range l.order {
		lib[p.pkg] = true
	}
	seen := map[*types.Package]bool{}
	var ext func(p *types.Package)
	ext = func(p *types.Package) {
		if seen[p] {
			return
		}
		seen[p] = true
		for _, i := range p.Imports() {
			ext(i)
		}
		if !lib[p] {
			prog.CreatePackage(p, nil, nil, true)
		}
	}
	for _, p := range l.order {
		ext(p.pkg)
	}
	an := &analysis{prog: prog, fset: fset, root: root, libPkgs: map[*ssa.Package]bool{}, libTypes: lib,
		gid: map[*ssa.Global]int{}, sums: map[*ssa.Function]*summary{}, writers: map[writer]bool{},
		assumed: map[string]bool{}, shared: map[string]bool{}}
	var spkgs []*ssa.Package
	for _, p := range l.order {
		sp := prog.CreatePackage(p.pkg, p.files, p.info, false)
		an.libPkgs[sp] = true
		spkgs = append(spkgs, sp)
	}
	prog.Build()

	// globals, functions, named types
	var unsafeFeatures, reflectUsers []string
	for i, sp := range spkgs {
		lp := l.order[i]
		var names []string
		for n := range sp.Members {
			names = append(names, n)
		}
		sort.Strings(names)
		for _, n := range names {
			switch m := sp.Members[n].(type) {
			case *ssa.Global:
				if n == "init$guard" {
					continue
				}
				an.gid[m] = len(an.globals)
				an.globals = append(an.globals, m)
			case *ssa.Type:
				T := m.Type()
				an.named = append(an.named, T, types.NewPointer(T))
			}
		}
		for _, f := range lp.files {
			for _, im := range f.Imports {
				switch strings.Trim(im.Path.Value, "\"") {
				case "unsafe":
					unsafeFeatures = append(unsafeFeatures, fmt.Sprintf("(%s, %s)", q(lp.path), q("imports unsafe in "+filepath.Base(fset.Position(f.Pos()).Filename))))
				case "C":
					unsafeFeatures = append(unsafeFeatures, fmt.Sprintf("(%s, %s)", q(lp.path), q("imports C (cgo) in "+filepath.Base(fset.Position(f.Pos()).Filename))))
				case "reflect":
					reflectUsers = append(reflectUsers, q(lp.path+" ("+filepath.Base(fset.Position(f.Pos()).Filename)+")"))
				}
			}
			for _, cg := range f.Comments {
				for _, c := range cg.List {
					if strings.HasPrefix(c.Text, "//go:linkname") {
						unsafeFeatures = append(unsafeFeatures, fmt.Sprintf("(%s, %s)", q(lp.path), q("go:linkname in "+filepath.Base(fset.Position(f.Pos()).Filename))))
					}
				}
			}
		}
		for _, s := range lp.bp.SFiles {
			unsafeFeatures = append(unsafeFeatures, fmt.Sprintf("(%s, %s)", q(lp.path), q("assembly file "+s)))
		}
		for _, s := range append(append([]string{}, lp.bp.CFiles...), lp.bp.CgoFiles...) {
			unsafeFeatures = append(unsafeFeatures, fmt.Sprintf("(%s, %s)", q(lp.path), q("C/cgo file "+s)))
		}
	}
	// every function with a body that belongs to a library package: members, methods (incl. wrappers),
	// anonymous functions, and whatever they call statically or close over
	inset := map[*ssa.Function]bool{}
	var addFn func(f *ssa.Function)
	addFn = func(f *ssa.Function) {
		if f == nil || inset[f] || !an.isLib(f) {
			return
		}
		inset[f] = true
		an.fns = append(an.fns, f)
		for _, a := range f.AnonFuncs {
			addFn(a)
		}
		for _, b := range f.Blocks {
			for _, ins := range b.Instrs {
				switch x := ins.(type) {
				case ssa.CallInstruction:
					addFn(x.Common().StaticCallee())
				case *ssa.MakeClosure:
					if g, ok := x.Fn.(*ssa.Function); ok {
						addFn(g)
					}
				}
				for _, op := range ins.Operands(nil) {
					if g, ok := (*op).(*ssa.Function); ok {
						addFn(g)
					}
				}
			}
		}
	}
	for _, sp := range spkgs {
		var names []string
		for n := range sp.Members {
			names = append(names, n)
		}
		sort.Strings(names)
		for _, n := range names {
			switch m := sp.Members[n].(type) {
			case *ssa.Function:
				addFn(m)
			case *ssa.Type:
				for _, T := range []types.Type{m.Type(), types.NewPointer(m.Type())} {
					ms := prog.MethodSets.MethodSet(T)
					for i := 0; i < ms.Len(); i++ {
						addFn(prog.MethodValue(ms.At(i)))
					}
				}
			}
		}
	}
	nInit := 0
	for round := 0; round < 100; round++ {
		an.changed = false
		for _, f := range an.fns {
			if isInit(f) {
				continue
			}
			an.analyze(f)
		}
		if !an.changed {
			break
		}
	}
	for _, f := range an.fns {
		if isInit(f) {
			nInit++
		}
	}

	// ---- emit
	var b strings.Builder
	b.WriteString("(* GENERATED by /verif/tools/globals from the Go sources (go/ssa may-write analysis) -- do not edit *)\n")
	b.WriteString("From Coq Require Import List String.\nImport ListNotations.\nLocal Open Scope string_scope.\n\n")
	var ps []string
	for _, p := range l.order {
		ps = append(ps, q(p.path))
	}
	sort.Strings(ps)
	b.WriteString("(* the analysed (non-test, non-main) packages *)\nDefinition packages : list string := " + coqList(ps, "  ") + ".\n\n")
	var sk []string
	for _, s := range skipped {
		sk = append(sk, q(s))
	}
	b.WriteString("Definition skipped_directories : list string := " + coqList(sk, "  ") + ".\n\n")
	var gs []string
	for _, g := range an.globals {
		T := g.Type().(*types.Pointer).Elem()
		gs = append(gs, fmt.Sprintf("(%s, %s, %s, %s)", q(g.Pkg.Pkg.Path()), q(g.Name()), q(typeKind(T)), q(types.TypeString(T, func(p *types.Package) string { return p.Name() }))))
	}
	b.WriteString("(* every package-level variable: (package, name, kind, type) *)\n")
	b.WriteString("Definition globals : list (string * string * string * string) := " + coqList(gs, "  ") + ".\n\n")
	var ws []writer
	for w := range an.writers {
		ws = append(ws, w)
	}
	sort.Slice(ws, func(i, j int) bool {
		a, c := ws[i], ws[j]
		if a.global != c.global {
			return a.global < c.global
		}
		if a.pos != c.pos {
			return a.pos < c.pos
		}
		if a.fn != c.fn {
			return a.fn < c.fn
		}
		return a.how < c.how
	})
	var wl []string
	for _, w := range ws {
		g := an.globals[w.global]
		wl = append(wl, fmt.Sprintf("(%s, %s, %s, %s)", q(g.Pkg.Pkg.Path()+"."+g.Name()), q(w.fn), q(w.pos), q(w.how)))
	}
	b.WriteString("(* every instruction outside the package initialisers that may write a package-level variable\n   or leak a writable reference to it: (variable, function, position, how) *)\n")
	b.WriteString("Definition writers : list (string * string * string * string) := " + coqList(wl, "  ") + ".\n\n")
	b.WriteString("Definition written_globals : list string := map (fun w => fst (fst (fst w))) writers.\n\n")
	sort.Strings(unsafeFeatures)
	b.WriteString("(* constructs the analysis cannot see through: (package, what) *)\n")
	b.WriteString("Definition unsafe_features : list (string * string) := " + coqList(unsafeFeatures, "  ") + ".\n\n")
	sort.Strings(reflectUsers)
	b.WriteString("(* informational: users of package reflect (reflect calls on global-derived values are reported as writers) *)\n")
	b.WriteString("Definition reflect_users : list string := " + coqList(reflectUsers, "  ") + ".\n\n")
	var as []string
	for a := range an.assumed {
		as = append(as, q(a))
	}
	sort.Strings(as)
	b.WriteString("(* informational: global-derived references handed to allow-listed read-only standard-library callees *)\n")
	b.WriteString("Definition assumed_readonly_uses : list string := " + coqList(as, "  ") + ".\n\n")
	var sh []string
	for a := range an.shared {
		sh = append(sh, q(a))
	}
	sort.Strings(sh)
	b.WriteString("(* informational: calls of standard-library functions acting on process-wide state (not package-level\n   variables of the analysed packages; outside the property's claim, listed for the reader) *)\n")
	b.WriteString("Definition stdlib_shared_state_calls : list string := " + coqList(sh, "  ") + ".\n\n")
	fmt.Fprintf(&b, "Definition functions_analysed : nat := %d.\nDefinition initialisers_excluded : nat := %d.\n", len(an.fns)-nInit, nInit)
	tmp := filepath.Join(*out, "GenGlobals.v.tmp")
	if err := os.WriteFile(tmp, []byte(b.String()), 0o644); err != nil {
		fail(err.Error())
	}
	os.Remove(filepath.Join(*out, "GenGlobals.err"))
	if err := os.Rename(tmp, filepath.Join(*out, "GenGlobals.v")); err != nil {
		fail(err.Error())
	}
	fmt.Printf("globals: %d packages, %d globals, %d functions, %d writers, %d unsafe features\n", len(l.order), len(an.globals), len(an.fns)-nInit, len(ws), len(unsafeFeatures))
	for _, w := range ws {
		g := an.globals[w.global]
		fmt.Printf("WRITER %s.%s in %s at %s: %s\n", g.Pkg.Pkg.Path(), g.Name(), w.fn, w.pos, w.how)
	}
}
