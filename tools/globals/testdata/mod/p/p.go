// Package p: W_* functions must each be reported as a writer of some package-level variable,
// R_* functions must not.  (Self-test of /verif/tools/globals, run by checks/sched.py.)
package p

import (
	"bytes"
	"fmt"
	"io"
	"sort"
	"sync"

	"example.com/t/q"
)

type rec struct {
	n    int
	name string
	fn   func(int) int
}

var counter int
var table = [8]rec{}
var bytesTbl = [16]byte{1, 2, 3}
var names = map[int]string{1: "a"}
var slice = []int{1, 2, 3}
var ptr = &rec{}
var empty = &struct{}{}
var mu sync.Mutex
var sink io.Writer = &bytes.Buffer{}
var anyv interface{} = map[int]int{}

func init() { counter = 1; names[2] = "b" } // initialisers are exempt

func W_assign()           { counter = 2 }
func W_incdec()           { counter++ }
func W_field(i int)       { table[i].n = 1 }
func W_index(i int)       { bytesTbl[i] = 0 }
func W_map(k int)         { names[k] = "x" }
func W_delete(k int)      { delete(names, k) }
func W_sliceelem()        { slice[0] = 9 }
func W_appendback()       { slice = append(slice, 1) }
func W_appendinto() []int { return append(slice[:1], 7) }
func W_copy(src []byte)   { copy(bytesTbl[:], src) }
func W_ptr()              { ptr.n++ }
func W_alias()            { p := &table[2]; p.n = 3 }
func W_alias2()           { s := bytesTbl[:]; s[1] = 2 }
func W_callee()           { q.Fill(q.Table[:], 0) }
func W_closure() func()   { return func() { counter++ } }
func W_capture()          { s := slice; f := func() { s[0] = 1 }; f() }
func W_sort()             { sort.Ints(slice) }
func W_mutex()            { mu.Lock(); mu.Unlock() }
func W_writer()           { sink.Write([]byte("x")) }
func W_fprintf()          { fmt.Fprintf(sink, "x") }
func W_assert(k int)      { anyv.(map[int]int)[k] = 1 }
func W_escape(b *q.Box)   { b.Keep(q.Table[:]) }
func W_store(b *q.Box)    { b.S = slice }
func W_Return() []byte    { return bytesTbl[:] }
func W_ReturnPtr() *rec   { return &table[0] }
func W_dyn(f func([]int)) { f(slice) }
func W_read(r io.Reader)  { r.Read(bytesTbl[:]) }
func W_range() {
	for i := range slice {
		slice[i] = 0
	}
}
func W_addr() *int        { return &counter }
func W_send(c chan []int) { c <- slice }
func W_defer()            { defer q.Fill(slice, 1) }
func W_go()               { go q.Fill(slice, 1) }
func W_method()           { ptr.set(4) }
func (r *rec) set(n int)  { r.n = n }
func W_iface()            { var s setter = ptr; s.set(5) }

type setter interface{ set(int) }

func R_read(i int) int               { return table[i].n + int(bytesTbl[i]) + counter }
func R_copyout(i int) rec            { r := table[i]; r.n = 5; return r }
func R_local() int                   { t := bytesTbl; t[0] = 9; return int(t[0]) }
func R_call(i int) int               { return table[i].fn(i) }
func R_slice_read() int              { return q.Sum(q.Table[1:3]) + q.Sum(slice) }
func R_lookup(k int) string          { return names[k] }
func R_len() int                     { return len(slice) + len(names) + cap(slice) }
func R_copyfrom(dst []byte)          { copy(dst, bytesTbl[:]) }
func R_appendfrom(dst []byte) []byte { return append(dst, bytesTbl[2:5]...) }
func R_ptrread() int                 { p := &table[1]; return p.n }
func R_empty() interface{}           { return empty }
func R_Err() error                   { return q.Err }
func R_errtext() string              { return q.Err.Error() }
func R_sprintf() string              { return fmt.Sprintf("%v %v", bytesTbl[:], q.Err) }
func R_write(w io.Writer)            { w.Write(bytesTbl[3:6]) }
func R_view() int                    { return q.ReadView(1) }
func R_range() (t int) {
	for _, v := range slice {
		t += v
	}
	for k := range names {
		t += k
	}
	return
}
func R_localmap() map[int]string {
	m := map[int]string{}
	for k, v := range names {
		m[k] = v
	}
	return m
}
func R_method() int           { return ptr.get() }
func (r *rec) get() int       { return r.n }
func R_equal(b []byte) bool   { return bytes.Equal(b, bytesTbl[:]) }
func R_reader() *bytes.Reader { return bytes.NewReader(nil) }
