module example.com/t

go 1.17
