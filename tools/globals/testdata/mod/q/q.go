// Package q: helpers in another package, so that summaries cross package boundaries.
package q

var Table = [4]int{1, 2, 3, 4}

var Err error = errT{}

type errT struct{}

func (errT) Error() string { return "e" }

// Sum only reads its parameter.
func Sum(s []int) int {
	t := 0
	for i := 0; i < len(s); i++ {
		t += s[i]
	}
	return t
}

// Fill writes its parameter.
func Fill(s []int, v int) {
	for i := range s {
		s[i] = v
	}
}

// Keep stores its parameter in a caller-owned object.
type Box struct{ S []int }

func (b *Box) Keep(s []int) { b.S = s }

// View returns a slice of the table (not exported API use: called by p only through a wrapper).
func view() []int { return Table[:] }

// ReadView reads through view.
func ReadView(i int) int { return view()[i] }
