module verif/tools/globals

go 1.22.0

toolchain go1.23.5

require golang.org/x/tools v0.29.0
