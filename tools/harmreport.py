#!/usr/bin/env python3
"""Markdown table of the behaviour-preserving changes archived under /verif/harmless (for DESIGN.md)."""
import json, glob, os
rows = []
for m in sorted(glob.glob("/verif/harmless/*/meta.json")):
    d = json.load(open(m))
    c = d.get("confirmed_by_integrator", {})
    name = os.path.basename(os.path.dirname(m))
    for pid, r in c.get("checks", {}).items():
        verdict = "quiet (%ds)" % r["secs"] if r["exit"] == 0 else "ALARM: " + (r["first"][0]["detail"][:140].replace("|", "/").replace("\n", " ") if r["first"] else "exit %d" % r["exit"])
        rows.append("| %s | %s | %s | %s | %s |" % (name, pid, (d.get("kind") or "")[:70].replace("|", "/"), (d.get("summary") or "")[:170].replace("|", "/").replace("\n", " "), verdict))
print("| rewrite | check | kind | what it does | result (final machinery) |\n|---|---|---|---|---|")
print("\n".join(rows))
