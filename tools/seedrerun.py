#!/usr/bin/env python3
"""Re-run the check of an archived seeded change (seeded/<ID>-<g>/) against a scratch copy of /repo with the change
applied; prints the verdict and leaves the archive and the evidence untouched.  usage: seedrerun.py seeded/C01-ta [...]"""
import json, os, shutil, subprocess, sys, time
ENV = dict(os.environ, GOFLAGS="-mod=mod", GOPROXY="off", GOSUMDB="off", GOTOOLCHAIN="local")
def sh(cmd, cwd=None, timeout=7200):
    p = subprocess.run(cmd, cwd=cwd, env=ENV, stdout=subprocess.PIPE, stderr=subprocess.STDOUT, text=True, timeout=timeout, shell=isinstance(cmd, str))
    return p.returncode, p.stdout
for d in sys.argv[1:]:
    d = os.path.abspath(d)
    name = os.path.basename(d.rstrip("/"))
    pid = name.split("-")[0]
    R = "/tmp/repo_rerun_" + name
    shutil.rmtree(R, ignore_errors=True)
    sh(["cp", "-r", "/repo", R])
    ENV["VERIF_REPO"] = R
    rc, o = sh(["git", "-C", R, "apply", os.path.join(d, "patch.diff")])
    if rc != 0:
        print(name, "patch does not apply:", o[:200]); continue
    ev = "/verif/evidence/%s.json" % pid
    keep = open(ev).read() if os.path.exists(ev) else None
    t0 = time.time()
    rc, o = sh(["./check", pid, "--tier", "quick"], cwd="/verif")
    if keep is not None:
        open(ev, "w").write(keep)
    v = [l for l in o.splitlines() if l.startswith("VIOLATION")]
    nof = sum(1 for l in v if "no-failing-input-found" in l)
    first = ""
    for l in v[:1]:
        rp = l.split("replay=")[1].split()[0]
        if os.path.exists(rp):
            first = json.load(open(rp)).get("key", "")
    print("%s exit=%d violations=%d no_failing_input=%d first=%s secs=%d" % (name, rc, len(v), nof, first, time.time() - t0), flush=True)
    shutil.rmtree(R, ignore_errors=True)
