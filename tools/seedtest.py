#!/usr/bin/env python3
"""Apply one seeded change (produced by an independent sub-agent under /tmp/seed/<g>/out/<ID>) to /repo, confirm
it (baseline passes, demonstration fails with it and passes without), run the check of the property against it,
undo it, and archive it under /verif/seeded/<ID>-<g>/ with the outcome."""
import json, os, shutil, subprocess, sys, glob, time
ENV = dict(os.environ, GOFLAGS="-mod=mod", GOPROXY="off", GOSUMDB="off", GOTOOLCHAIN="local")
def sh(cmd, cwd=None, timeout=3600):
    p = subprocess.run(cmd, cwd=cwd, env=ENV, stdout=subprocess.PIPE, stderr=subprocess.STDOUT, text=True, timeout=timeout, shell=isinstance(cmd, str))
    return p.returncode, p.stdout
def find_run(d):
    for c in (os.path.join(d, "demo", "run.sh"), os.path.join(d, "run.sh")):
        if os.path.exists(c):
            return c
def main():
    src = sys.argv[1]          # /tmp/seed/g/out/ID
    pid = os.path.basename(src.rstrip("/"))
    g = src.rstrip("/").split("/")[-3]
    extra = sys.argv[2:]       # further property ids to run as well
    out = {"property": pid, "group": g}
    # a scratch copy of /repo is used (VERIF_REPO) so that work packages running against /repo are not disturbed
    R = "/tmp/repo_seed_%s_%s" % (g, pid)
    shutil.rmtree(R, ignore_errors=True)
    sh(["cp", "-r", "/repo", R])
    ENV["VERIF_REPO"] = R
    out["tree"] = "scratch copy of /repo at " + sh("git -C /repo rev-parse --short HEAD")[1].strip() + " (VERIF_REPO)"
    run = find_run(src)
    rc, o = sh(["git", "-C", R, "apply", os.path.join(src, "patch.diff")])
    if rc != 0:
        print("patch does not apply", o); return 2
    try:
        rc, o = sh(["python3", "/verif/tools/baseline.py", R]); out["baseline_pass_with_change"] = rc == 0
        rc, o = sh(["bash", run, R], cwd=os.path.dirname(run), timeout=600); out["demo_fails_with_change"] = rc != 0
        res = {}
        for p in [pid] + extra:
            t0 = time.time()
            ev = "/verif/evidence/%s.json" % p          # evidence must come from runs on the unchanged tree: keep it
            keep = open(ev).read() if os.path.exists(ev) else None
            rc, o = sh(["./check", p, "--tier", "quick"], cwd="/verif")
            if keep is not None:
                open(ev, "w").write(keep)
            v = [l for l in o.splitlines() if l.startswith("VIOLATION") or l.startswith("KNOWN")]
            kinds = []
            for l in v:
                rp = l.split("replay=")[1].split()[0] if "replay=" in l else None
                if rp and os.path.exists(rp):
                    d = json.load(open(rp)); kinds.append({"kind": d["kind"], "key": d["key"], "detail": d["detail"][:300]})
            res[p] = {"exit": rc, "violations": len(v), "no_failing_input": sum(1 for l in v if "no-failing-input-found" in l), "first": kinds[:2], "secs": round(time.time() - t0)}
        out["checks"] = res
    finally:
        sh("git -C %s checkout -- . && git -C %s clean -fdq" % (R, R))
    rc, o = sh(["bash", run, R], cwd=os.path.dirname(run), timeout=600); out["demo_passes_without_change"] = rc == 0
    shutil.rmtree(R, ignore_errors=True)
    dst = "/verif/seeded/%s-%s" % (pid, g)
    shutil.rmtree(dst, ignore_errors=True); os.makedirs(dst)
    shutil.copy(os.path.join(src, "patch.diff"), dst)
    if os.path.isdir(os.path.join(src, "demo")):
        shutil.copytree(os.path.join(src, "demo"), os.path.join(dst, "demo"))
    if os.path.exists(os.path.join(src, "run.sh")):
        shutil.copy(os.path.join(src, "run.sh"), dst)
    meta = {}
    try: meta = json.load(open(os.path.join(src, "meta.json")))
    except Exception: pass
    meta["confirmed_by_integrator"] = out
    json.dump(meta, open(os.path.join(dst, "meta.json"), "w"), indent=1)
    print(json.dumps(out, indent=1))
main()
