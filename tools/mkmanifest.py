#!/usr/bin/env python3
"""Regenerates /verif/MANIFEST.json from the table below (one entry per claimed property)."""
import json
import os

ROOT = os.path.dirname(os.path.dirname(os.path.abspath(__file__)))
ALL = ["C%02d" % i for i in range(1, 20)]

SWEEP = "Rocq/Coq proof by kernel-checked exhaustive sweep over a model regenerated from source (translation-validated)"
REGEN = "Rocq/Coq proof over interpreter models regenerated from the Go source on every run, tied to the compiled code by lockstep execution of the extracted models"
HAND = "Rocq/Coq proof over a hand-written executable model, tied to the compiled code by Coq-checked correspondence cases on every run"

CLAIMS = {
    "C02": dict(
        text="Coq theorem over the two interpreter models regenerated from source on every run: GenCpu65.Step = GenCpuAlt.Step as functions (hence for every "
             "state incl. E=1/D=1/any widths/pending interrupts, every memory image, and by C02_run_eq every number of steps: same registers, flags, stop flag, "
             "memory, cycles, cycle totals, bus trace and panic status; likewise Reset, TriggerIRQ, triggerNMI). Two routes, chosen per run (checks/cpulink.py): "
             "PIVOT - each regenerated model is proved equal to its committed snapshot function by function (261 kernel-checked lemmas closed by conversion) and "
             "the two snapshots are equal by the static theorem Props/C02Snap.v (129 routine-by-routine lemmas); DIRECT - the 129 routine-by-routine lemmas over "
             "the regenerated models themselves (when a snapshot is out of date). An edit to one interpreter only breaks a named lemma.",
        note="Trusted: Coq kernel; functional_extensionality_dep (stdlib axiom, bus-helper lemmas); translator /verif/gen + Lib/Machine.v (flat memory behind both buses = "
             "the property's 'whole address space mapped' assumption), validated every run by lockstep execution of the extracted models (ExtrOcamlBasic only) against both "
             "compiled interpreters on ~3x10^5 steps (quick) with full field/trace comparison; the Go lockstep falsifier compares the two real interpreters directly. "
             "The per-function snapshot equalities close by conversion, else by structured congruence (Props/SeqCong.v: extracted helpers, an if moved into an expression, reordered independent assignments, "
             "guard clauses), else by pointwise case analysis. Known limit: the lemmas are equalities of FUNCTIONS over all of Z, so a rewrite of ONE interpreter that is an identity only for in-range "
             "arguments / register values (bus address arithmetic spelt differently) ends as no-failing-input-found (DESIGN, harmless rewrites round 2).",
        tech=REGEN, ref="DESIGN.md 0 / C02 as built"),
    "C04": dict(
        text="Coq theorem per mapper, forall n < 2^24: right-inverse and class/page-offset clauses, proved by exhaustive enumeration inside the kernel (all24_sound + VM cast) "
             "over the functions regenerated from the Go source on every run; the bound 2^24 is the property's own domain, so this is a complete proof, not a sample.",
        note="Trusted: Coq kernel + VM + Uint63 primitives and the stdlib's axioms for them; translator /verif/gen, validated every run by Coq-checked per-bank digests against "
             "the compiled Go functions over all 2^24 inputs; clause statements in coq/Props/MapProps.v.",
        tech=SWEEP, ref="DESIGN.md 5/C04"),
    "C05": dict(
        text="Coq theorems per mapper, forall n < 2^24: image windows, rejected pak window, console-owned areas, 8 KiB page structure in both directions (C05_<m>), and "
             "BusAddressToPak n = MapSpec.lookup table_<m> n, i.e. class and linear position of the documented region table, with the documented mirrors (C05_region_<m>, "
             "C05_class_pos_<m>, C05_mirrors_<m>); exhaustive kernel sweeps over regenerated functions.",
        note="As C04. 'Documented region table' = coq/Spec/MapSpec.v, declarative rows transcribed from the comments of mapping/*/mapping.go and the rows of the passing "
             "TestBusAddressToPak tables (not a hardware manual); statically proved: rows disjoint, positions inside their class window, documented mirrors, all 198 test rows "
             "reproduced. The Go falsifier carries a second, independently encoded transcription (clause C05.region_table).",
        tech=SWEEP, ref="DESIGN.md 5/C05"),
    "C17": dict(
        text="Coq theorems over color15 regenerated from source: unpack/pack (all 2^16 colours, all 2^24 byte triples), luminosity, and MulDiv = per-channel saturated floor "
             "quotient for all 2^16 x 2^8 x 255 inputs (factorisation lemma + exhaustive kernel sweep of channel scalings); identity/monotonicity/<=31 as Z lemmas.",
        note="Trusted: Coq kernel + VM + Uint63 primitives and the stdlib's axioms for them; translator validated per run by Coq-checked digests against compiled Go "
             "(MulDiv digest sampled over 288 (m,d) pairs x all colours); Go falsifier enumerates the whole MulDiv domain.",
        tech=SWEEP, ref="DESIGN.md 5/C17"),
}

PENDING_REASON = "check not built yet (work in progress; see DESIGN.md section 10)"


def main():
    # claims contributed by work packages live in tools/claims/*.json (same keys as CLAIMS entries)
    cdir = os.path.join(ROOT, "tools", "claims")
    if os.path.isdir(cdir):
        for n in sorted(os.listdir(cdir)):
            if n.endswith(".json"):
                CLAIMS.update(json.load(open(os.path.join(cdir, n))))
    checks = []
    for pid in ALL:
        if pid not in CLAIMS:
            continue
        c = CLAIMS[pid]
        checks.append({
            "property_id": pid,
            "quick_cmd": "./check %s --tier quick" % pid,
            "thorough_cmd": "./check %s --tier thorough" % pid,
            "evidence_file": "/verif/evidence/%s.json" % pid,
            "replay_cmd_template": "./check %s --replay {path}" % pid,
            "engine": "coq",
            "level_claimed": {"category": "proof", "text": c["text"], "design_ref": c["ref"]},
            "level_note": c["note"],
            "technique": c["tech"],
        })
    m = {
        "version": 1,
        "setup_cmd": "./check --setup",
        "hooks": {
            "guard": "verif",
            "enable": "no hooks: harness modules use `replace github.com/alttpo/snes => /repo`; tag `verif` reserved",
            "baseline_off_cmd": "cd /repo && go test -vet=off -count=1 ./...",
            "source_commits": [],
            "add_only": True,
        },
        "checks": checks,
        "not_applicable": [{"property_id": p, "reason": PENDING_REASON} for p in ALL if p not in CLAIMS],
        "engines": [{"name": "coq", "path": "/verif/check", "serves_properties": [c["property_id"] for c in checks],
                     "kind_free_text": "Coq 8.16.1 theorems over models regenerated from Go source by /verif/gen (or hand-written + correspondence), orchestrated by /verif/check"}],
    }
    json.dump(m, open(os.path.join(ROOT, "MANIFEST.json"), "w"), indent=1)
    print("claimed:", [c["property_id"] for c in checks])


if __name__ == "__main__":
    main()
