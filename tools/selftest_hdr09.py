#!/usr/bin/env python3
"""Mutation self-test of the C09 check: seeded edits of header.go / rom.go in scratch copies of the repo.

usage: tools/selftest_hdr09.py [name ...]     (run from the worktree root; prints one table row per mutation)
Each mutation is applied to /tmp/repo_hdr09_<name>, must compile, is run through tools/baseline.py when
--baseline is given, then `VERIF_REPO=<copy> ./check C09 --tier quick`; the copy is removed afterwards.
"""
import os
import shutil
import subprocess
import sys

ROOT = os.path.dirname(os.path.dirname(os.path.abspath(__file__)))
REPO = os.environ.get("VERIF_REPO_BASE", "/repo")

# name -> (expect alarm?, [(file, old, new)], description)
MUT = {
    "swap_vectors": (True, [("header.go",
                             "\tCOP     uint16  `rom:\"FFE4\"`\n\tBRK     uint16  `rom:\"FFE6\"`\n",
                             "\tBRK     uint16  `rom:\"FFE6\"`\n\tCOP     uint16  `rom:\"FFE4\"`\n")],
                     "NativeVectors: COP and BRK declared in swapped order (tags travel with the fields)"),
    "swap_ext": (True, [("header.go",
                         "\tFlashSize        byte    `rom:\"FFBC\"`\n\tExpansionRAMSize byte    `rom:\"FFBD\"`\n",
                         "\tExpansionRAMSize byte    `rom:\"FFBD\"`\n\tFlashSize        byte    `rom:\"FFBC\"`\n")],
                 "FlashSize and ExpansionRAMSize declared in swapped order"),
    "swap_names_only": (True, [("header.go",
                                "\tROMSize            byte     `rom:\"FFD7\"`\n\tRAMSize            byte     `rom:\"FFD8\"`\n",
                                "\tRAMSize            byte     `rom:\"FFD7\"`\n\tROMSize            byte     `rom:\"FFD8\"`\n")],
                        "ROMSize/RAMSize names swapped, tags left in place (code self-consistent, contradicts the documented map)"),
    "retype": (True, [("header.go",
                       "\tMakerCode        uint16  `rom:\"FFB0\"`\n\tGameCode         uint32  `rom:\"FFB2\"`\n",
                       "\tMakerCode        uint32  `rom:\"FFB0\"`\n\tGameCode         uint16  `rom:\"FFB2\"`\n")],
               "MakerCode uint32 / GameCode uint16 (total still 80 bytes, GameCode now read from $FFB4)"),
    "widen": (True, [("header.go", "\tMaskROMVersion     byte     `rom:\"FFDB\"`", "\tMaskROMVersion     uint16   `rom:\"FFDB\"`")],
              "MaskROMVersion widened to uint16 (header becomes 81 bytes)"),
    "drop_zeroing": (True, [("header.go", "\t\th.SpecialVersion = 0\n", "")],
                     "version 1 no longer zeroes SpecialVersion"),
    "mask_marker": (True, [("header.go", "if h.OldMakerCode == 0x33 {\n\t\th.version = 3", "if h.OldMakerCode&0x7F == 0x33 {\n\t\th.version = 3")],
                    "version 3 detected on $FFDA & $7F = $33 (wrong mask: $B3 also counts)"),
    "skip_0f": (True, [("rom.go",
                        "copy(r.Contents[r.HeaderOffset+0x10:r.HeaderOffset+0x50], b.Bytes()[0x10:])",
                        "copy(r.Contents[r.HeaderOffset+0x0F:r.HeaderOffset+0x50], b.Bytes()[0x0F:])")],
                "ROM.WriteHeader skips 0x0F instead of 0x10 bytes for version <= 1"),
    "lt1": (True, [("rom.go", "if r.Header.version <= 1 {", "if r.Header.version < 1 {")],
            "ROM.WriteHeader: `<= 1` -> `< 1` (version 1 overwrites $FFB0-$FFBF with zeroes)"),
    "bigendian_write": (True, [("header.go", "err = binary.Write(w, binary.LittleEndian, p)", "err = binary.Write(w, binary.BigEndian, p)")],
                        "writeBinaryStruct writes big-endian"),
    "title19": (True, [("header.go", "} else if h.Title[20] == 0x00 {", "} else if h.Title[19] == 0x00 {")],
                "version 2 decided on Title[19] ($FFD3) instead of Title[20] ($FFD4)"),
    # behaviour-preserving rewrites: must NOT alarm
    "harmless_switch": (False, [("header.go",
                                 "\tif h.OldMakerCode == 0x33 {\n\t\th.version = 3\n\t} else if h.Title[20] == 0x00 {\n\t\th.version = 2\n\t} else {\n\t\th.version = 1\n",
                                 "\tswitch {\n\tcase h.OldMakerCode == 0x33:\n\t\th.version = 3\n\tcase h.Title[len(h.Title)-1] == 0:\n\t\th.version = 2\n\tdefault:\n\t\th.version = 1\n"),
                                ("header.go", "\t\th.Fixed1 = [6]byte{}\n", "\t\tfor i := range h.Fixed1 {\n\t\t\th.Fixed1[i] = 0\n\t\t}\n"),
                                ("rom.go",
                                 "\t\tcopy(r.Contents[r.HeaderOffset+0x10:r.HeaderOffset+0x50], b.Bytes()[0x10:])\n",
                                 "\t\tsrc := b.Bytes()[0x10:]\n\t\tdst := r.Contents[r.HeaderOffset+0x10 : r.HeaderOffset+0x50]\n\t\tfor i := 0; i < len(dst) && i < len(src); i++ {\n\t\t\tdst[i] = src[i]\n\t\t}\n")],
                        "version logic as a switch, Fixed1 zeroed by a loop, copy written as a loop"),
    "harmless_rename": (False, [("header.go", "Fixed1 ", "Reserved1 "),
                                ("header_test.go", "Fixed1:", "Reserved1:"), ("header_test.go", "Unused2: 0x8000,", "Unused2: [2]uint8{0x00, 0x80},"),
                                ("header.go", "\tUnused2 uint16  //`rom:\"FFEC\"`", "\tUnused2 [2]byte  //`rom:\"FFEC\"`")],
                        "field Fixed1 renamed Reserved1 (test updated); the untagged NativeVectors.Unused2 becomes [2]byte"),
}


def sh(cmd, env=None, timeout=1800, cwd=None):
    p = subprocess.run(cmd, stdout=subprocess.PIPE, stderr=subprocess.STDOUT, text=True, env=env, timeout=timeout, cwd=cwd)
    return p.returncode, p.stdout


def main():
    args = [a for a in sys.argv[1:] if not a.startswith("--")]
    baseline = "--baseline" in sys.argv
    names = args or list(MUT)
    env = dict(os.environ, GOFLAGS="-mod=mod", GOPROXY="off", GOSUMDB="off", GOTOOLCHAIN="local")
    rows = []
    for name in names:
        expect, edits, desc = MUT[name]
        copy = "/tmp/repo_hdr09_" + name
        shutil.rmtree(copy, ignore_errors=True)
        shutil.copytree(REPO, copy, symlinks=True)
        try:
            for (f, old, new) in edits:
                p = os.path.join(copy, f)
                s = open(p).read()
                if old not in s:
                    raise SystemExit("mutation %s: pattern not found in %s" % (name, f))
                open(p, "w").write(s.replace(old, new))
            rc, out = sh(["go", "build", "./..."], env=env, cwd=copy)
            if rc != 0:
                rows.append((name, "DOES NOT COMPILE", "", desc))
                print(out[-500:])
                continue
            base = ""
            if baseline:
                # header.go / rom.go are in the root package, which no other package imports: its tests are
                # the only baseline tests that can see the edit (tools/baseline.py runs the whole 25-minute suite)
                rc, out = sh(["go", "test", "-vet=off", "-count=1", "."], env=env, cwd=copy)
                fl = [l for l in out.splitlines() if l.startswith("--- FAIL")]
                base = "baseline ok" if rc == 0 else "baseline test FAILS too (%s)" % "; ".join(x[9:40] for x in fl[:2])
            e2 = dict(env, VERIF_REPO=copy)
            rc, out = sh([os.path.join(ROOT, "check"), "C09", "--tier", "quick"], env=e2, cwd=ROOT)
            viol = [l for l in out.splitlines() if l.startswith("VIOLATION")]
            kinds = []
            import json
            for l in viol:
                path = l.split("replay=")[1].split()[0]
                j = json.load(open(path))
                kinds.append("%s:%s" % (j["kind"], j["key"]))
            alarm = rc != 0
            ev = json.load(open(os.path.join(ROOT, "evidence", "C09.json")))
            brk = [o["name"] for o in ev["coverage"]["obligation_list"] if not o["discharged"]]
            short = sorted(set("layout_ok" if "gen_layout_ok" in n else "tie(cases)" if n.startswith("tie: Lemma tie") else "tie(layout)" if n.startswith("tie:") else
                               "theorems" if n.startswith("Theorem") else n[:30] for n in brk))
            kinds.append("obligations broken: " + (", ".join(short) if short else "none"))
            verdict = ("caught" if alarm else "MISSED") if expect else ("FALSE ALARM" if alarm else "quiet (as it must be)")
            rows.append((name, verdict, "; ".join(kinds) + (" | " + base if base else ""), desc))
            if viol:
                j = json.load(open(viol[0].split("replay=")[1].split()[0]))
                print("   %s -> %s" % (name, j["detail"][:300]))
        finally:
            shutil.rmtree(copy, ignore_errors=True)
    print()
    for r in rows:
        print("| %s | %s | %s | %s |" % (r[0], r[3], r[1], r[2]))
    # restore the generated files / harness for the default tree
    return 0


if __name__ == "__main__":
    sys.exit(main())
