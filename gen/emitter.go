package main

// Translator unit "emitter": one descriptor per instruction-emitting method of *asm.Emitter.
//
// A method is an instruction method when it is exported, is not EmitBytes/Append, and (transitively,
// through functions of package asm) reaches Emitter.write.  Its body is evaluated symbolically:
// straight-line code, at most one width guard `if [!]a.IsM16bit()/IsX16bit() { panic(...) }` in front,
// at most one AssumeREP/AssumeSEP of a parameter, local variables and arrays, calls of package-level
// helpers whose body is assignments + one return (imm16, imm24), and finally exactly one call of an
// emit kind (a method whose last parameter is a byte array that it hands to write()).  Every byte of
// that array must come out as a constant or as byte(p_i >> k); `d[1], d[2] = imm16(x)`,
// `[3]byte{op, byte(x), byte(x >> 8)}`, `lo, hi := imm16(x); d[1] = lo; d[2] = hi` all give the same
// descriptor.  Anything else makes the unit fail (GenEmitter.err).

import (
	"crypto/sha256"
	"encoding/json"
	"fmt"
	"go/ast"
	"go/constant"
	"go/token"
	"go/types"
	"os"
	"sort"
	"strings"
)

// writeSourceHashes records, before anything is evaluated (so that it exists even when the unit fails),
// the hash of the source text of every exported method of *Emitter and one hash over everything else in
// package asm.  The check uses it in fallback mode to decide which methods changed since the snapshot.
func writeSourceHashes(l *loader, p *pkgInfo, dir string) {
	methods := map[string]string{}
	rest := sha256.New()
	srcs := map[string][]byte{}
	for i, f := range p.files {
		fn := l.fset.Position(f.Pos()).Filename
		b, err := os.ReadFile(fn)
		if err != nil {
			panic(terr{err.Error()})
		}
		srcs[fn] = b
		_ = i
		last := 0
		for _, dcl := range f.Decls {
			fd, ok := dcl.(*ast.FuncDecl)
			if !ok || fd.Recv == nil || !fd.Name.IsExported() {
				continue
			}
			a, z := l.fset.Position(fd.Pos()).Offset, l.fset.Position(fd.End()).Offset
			rest.Write(b[last:a])
			last = z
			methods[fd.Name.Name] = fmt.Sprintf("%x", sha256.Sum256(b[a:z]))
		}
		rest.Write(b[last:])
	}
	js, _ := json.MarshalIndent(map[string]interface{}{"methods": methods, "rest": fmt.Sprintf("%x", rest.Sum(nil))}, "", " ")
	writeFile(dir, "GenEmitterSrc.json", string(js))
}

// ---------------------------------------------------------------- symbolic values

type symKind int

const (
	sConst symKind = iota // integer constant c
	sPar                  // floor(p_i / 2^k) mod 2^w   (w < 0: the raw signed parameter, k = 0)
	sStr                  // string constant
	sLabel                // the string parameter i, uninterpreted
	sArr                  // array of scalar values
	sTuple                // multiple results
)

type symval struct {
	kind  symKind
	c     int64
	i     int
	k     int
	w     int
	s     string
	elems []symval
}

type emitKind struct {
	name                string
	arr, written, adv   int64
	label               int
	pIns, pFmt, pLabel  int // parameter positions, -1 if absent
	pArr                int
}

type emDesc struct {
	name    string
	pos     token.Pos
	pnames  []string
	ptys    []string
	bytes   []string
	guard   string
	effect  string
	kind    string
	ins     string
	fmtS    string
}

type emUnit struct {
	l       *loader
	p       *pkgInfo
	decls   map[*types.Func]*ast.FuncDecl
	kinds   map[string]*emitKind
	korder  []string
	maskM   int64
	maskX   int64
	depth   int
}

func (u *emUnit) fail(pos token.Pos, format string, a ...interface{}) {
	where := ""
	if pos != token.NoPos {
		where = u.l.pos(pos) + ": "
	}
	panic(terr{where + fmt.Sprintf(format, a...)})
}

func coqStr(s string) string {
	return "\"" + strings.ReplaceAll(s, "\"", "\"\"") + "\""
}

// callee resolves the *types.Func a call expression invokes (nil for conversions, builtins, dynamic calls).
func (u *emUnit) callee(call *ast.CallExpr) *types.Func {
	switch f := ast.Unparen(call.Fun).(type) {
	case *ast.Ident:
		fo, _ := u.p.info.Uses[f].(*types.Func)
		return fo
	case *ast.SelectorExpr:
		if sel := u.p.info.Selections[f]; sel != nil {
			fo, _ := sel.Obj().(*types.Func)
			return fo
		}
		fo, _ := u.p.info.Uses[f.Sel].(*types.Func)
		return fo
	}
	return nil
}

func (u *emUnit) reaches(fo *types.Func, target string, seen map[*types.Func]bool) bool {
	if seen[fo] {
		return false
	}
	seen[fo] = true
	d := u.decls[fo]
	if d == nil || d.Body == nil {
		return false
	}
	found := false
	ast.Inspect(d.Body, func(n ast.Node) bool {
		if found {
			return false
		}
		if c, ok := n.(*ast.CallExpr); ok {
			if g := u.callee(c); g != nil && g.Pkg() == u.p.pkg {
				if g.Name() == target && g.Type().(*types.Signature).Recv() != nil {
					found = true
				} else if u.reaches(g, target, seen) {
					found = true
				}
			}
		}
		return true
	})
	return found
}

// ---------------------------------------------------------------- types

func (u *emUnit) paramType(t types.Type, pos token.Pos) (string, int, bool) {
	// returns (descriptor type, bits, signed)
	if n, ok := t.(*types.Named); ok && n.Obj().Pkg() == u.p.pkg && n.Obj().Name() == "Flags" {
		if b, ok := n.Underlying().(*types.Basic); ok && b.Kind() == types.Uint8 {
			return "TFlags", 8, false
		}
	}
	if b, ok := t.Underlying().(*types.Basic); ok {
		if _, named := t.(*types.Named); !named {
			switch b.Kind() {
			case types.Uint8:
				return "TU8", 8, false
			case types.Int8:
				return "TI8", 8, true
			case types.Uint16:
				return "TU16", 16, false
			case types.Uint32:
				return "TU32", 32, false
			case types.String:
				return "TLabel", 0, false
			}
		}
	}
	u.fail(pos, "unsupported parameter type %s", t.String())
	return "", 0, false
}

func unsignedBits(t types.Type) int {
	if b, ok := t.Underlying().(*types.Basic); ok {
		switch b.Kind() {
		case types.Uint8:
			return 8
		case types.Uint16:
			return 16
		case types.Uint32:
			return 32
		case types.Uint64, types.Uint, types.Uintptr:
			return 64
		}
	}
	return 0
}

func isByteArray(t types.Type) (int64, bool) {
	at, ok := t.Underlying().(*types.Array)
	if !ok {
		return 0, false
	}
	if b, ok := at.Elem().Underlying().(*types.Basic); ok && b.Kind() == types.Uint8 {
		return at.Len(), true
	}
	return 0, false
}

// ---------------------------------------------------------------- expression evaluation

type emEnv map[types.Object]*symval

func (u *emUnit) constOf(e ast.Expr) (symval, bool) {
	tv, ok := u.p.info.Types[e]
	if !ok || tv.Value == nil {
		return symval{}, false
	}
	switch tv.Value.Kind() {
	case constant.Int:
		v, exact := constant.Int64Val(tv.Value)
		if !exact {
			u.fail(e.Pos(), "constant out of range")
		}
		return symval{kind: sConst, c: v}, true
	case constant.String:
		return symval{kind: sStr, s: constant.StringVal(tv.Value)}, true
	}
	return symval{}, false
}

func (u *emUnit) convert(v symval, to types.Type, pos token.Pos) symval {
	if v.kind == sStr || v.kind == sLabel {
		if b, ok := to.Underlying().(*types.Basic); ok && b.Kind() == types.String {
			return v
		}
		u.fail(pos, "unsupported string conversion")
	}
	w := unsignedBits(to)
	if w == 0 {
		// conversion to a signed type: only the identity on a raw signed parameter or a constant in range
		if b, ok := to.Underlying().(*types.Basic); ok && b.Info()&types.IsInteger != 0 {
			if v.kind == sPar && v.w < 0 {
				if b.Kind() == types.Int8 {
					return v
				}
			}
			if v.kind == sConst {
				return v
			}
		}
		u.fail(pos, "unsupported conversion to %s", to.String())
	}
	switch v.kind {
	case sConst:
		c := v.c
		if w < 64 {
			c &= (int64(1) << uint(w)) - 1
		}
		return symval{kind: sConst, c: c}
	case sPar:
		nv := v
		if v.w < 0 || w < v.w {
			nv.w = w
		}
		return nv
	}
	u.fail(pos, "unsupported conversion operand")
	return v
}

func (u *emUnit) eval(e ast.Expr, env emEnv) symval {
	if c, ok := u.constOf(e); ok {
		return c
	}
	switch x := e.(type) {
	case *ast.ParenExpr:
		return u.eval(x.X, env)
	case *ast.Ident:
		obj := u.p.info.Uses[x]
		if obj == nil {
			obj = u.p.info.Defs[x]
		}
		if v, ok := env[obj]; ok && v != nil {
			return *v
		}
		u.fail(x.Pos(), "value of %s is not known to the evaluator", x.Name)
	case *ast.IndexExpr:
		a := u.eval(x.X, env)
		idx, ok := u.constOf(x.Index)
		if a.kind != sArr || !ok || idx.kind != sConst || idx.c < 0 || idx.c >= int64(len(a.elems)) {
			u.fail(x.Pos(), "unsupported index expression")
		}
		return a.elems[idx.c]
	case *ast.CompositeLit:
		tv := u.p.info.Types[x]
		n, ok := isByteArray(tv.Type)
		if !ok {
			u.fail(x.Pos(), "unsupported composite literal of type %s", tv.Type.String())
		}
		arr := symval{kind: sArr, elems: make([]symval, n)}
		next := int64(0)
		for _, el := range x.Elts {
			val := el
			if kv, isKV := el.(*ast.KeyValueExpr); isKV {
				k, ok := u.constOf(kv.Key)
				if !ok || k.kind != sConst {
					u.fail(el.Pos(), "non-constant array key")
				}
				next = k.c
				val = kv.Value
			}
			if next < 0 || next >= n {
				u.fail(el.Pos(), "array index out of range")
			}
			arr.elems[next] = u.scalar(u.eval(val, env), val.Pos())
			next++
		}
		return arr
	case *ast.CallExpr:
		if tv, ok := u.p.info.Types[x.Fun]; ok && tv.IsType() {
			if len(x.Args) != 1 {
				u.fail(x.Pos(), "bad conversion")
			}
			return u.convert(u.eval(x.Args[0], env), tv.Type, x.Pos())
		}
		fo := u.callee(x)
		if fo == nil || fo.Pkg() != u.p.pkg || fo.Type().(*types.Signature).Recv() != nil {
			u.fail(x.Pos(), "call not understood by the evaluator")
		}
		var args []symval
		for _, a := range x.Args {
			args = append(args, u.eval(a, env))
		}
		return u.inline(fo, args, x.Pos())
	case *ast.BinaryExpr:
		l := u.eval(x.X, env)
		r := u.eval(x.Y, env)
		resT := u.p.info.Types[x].Type
		switch x.Op {
		case token.SHR:
			if r.kind != sConst || r.c < 0 || r.c > 63 {
				u.fail(x.Pos(), "shift by a non-constant")
			}
			if l.kind == sConst {
				return symval{kind: sConst, c: l.c >> uint(r.c)}
			}
			if l.kind == sPar && l.w > 0 && unsignedBits(resT) > 0 {
				if int(r.c) >= l.w {
					return symval{kind: sConst, c: 0}
				}
				return symval{kind: sPar, i: l.i, k: l.k + int(r.c), w: l.w - int(r.c)}
			}
		case token.AND:
			if l.kind == sConst && r.kind == sPar {
				l, r = r, l
			}
			if l.kind == sPar && l.w > 0 && r.kind == sConst && r.c >= 0 && (r.c+1)&r.c == 0 {
				bits := 0
				for m := r.c; m > 0; m >>= 1 {
					bits++
				}
				if bits == 0 {
					return symval{kind: sConst, c: 0}
				}
				nv := l
				if bits < nv.w {
					nv.w = bits
				}
				return nv
			}
		}
		u.fail(x.Pos(), "operator %s not understood by the evaluator", x.Op.String())
	}
	u.fail(e.Pos(), "expression not understood by the evaluator")
	return symval{}
}

func (u *emUnit) scalar(v symval, pos token.Pos) symval {
	if v.kind != sConst && v.kind != sPar {
		u.fail(pos, "scalar value expected")
	}
	return v
}

// inline evaluates a package-level helper: assignments to locals followed by one return.
func (u *emUnit) inline(fo *types.Func, args []symval, pos token.Pos) symval {
	d := u.decls[fo]
	if d == nil || d.Body == nil {
		u.fail(pos, "no body for %s", fo.Name())
	}
	u.depth++
	defer func() { u.depth-- }()
	if u.depth > 8 {
		u.fail(pos, "helper calls nested too deep")
	}
	env := emEnv{}
	sig := fo.Type().(*types.Signature)
	if sig.Variadic() || sig.Params().Len() != len(args) {
		u.fail(pos, "bad call of %s", fo.Name())
	}
	for i := 0; i < sig.Params().Len(); i++ {
		a := args[i]
		if a.kind == sConst || a.kind == sPar {
			a = u.convert(a, sig.Params().At(i).Type(), pos)
		}
		env[sig.Params().At(i)] = &a
	}
	for _, st := range d.Body.List {
		if rs, ok := st.(*ast.ReturnStmt); ok {
			if st != d.Body.List[len(d.Body.List)-1] {
				u.fail(st.Pos(), "return is not the last statement")
			}
			var out []symval
			for _, r := range rs.Results {
				out = append(out, u.eval(r, env))
			}
			if len(out) == 1 {
				return out[0]
			}
			return symval{kind: sTuple, elems: out}
		}
		u.localStmt(st, env)
	}
	u.fail(pos, "%s has no return", fo.Name())
	return symval{}
}

// localStmt handles `var x T [= e]`, `x := e`, `x = e`, `a[i] = e`, tuple forms.
func (u *emUnit) localStmt(st ast.Stmt, env emEnv) {
	switch s := st.(type) {
	case *ast.DeclStmt:
		gd, ok := s.Decl.(*ast.GenDecl)
		if !ok || gd.Tok != token.VAR {
			u.fail(st.Pos(), "declaration not understood")
		}
		for _, sp := range gd.Specs {
			vs := sp.(*ast.ValueSpec)
			for i, id := range vs.Names {
				obj := u.p.info.Defs[id]
				if len(vs.Values) == len(vs.Names) {
					v := u.eval(vs.Values[i], env)
					if v.kind == sConst || v.kind == sPar {
						v = u.convert(v, obj.Type(), id.Pos())
					}
					env[obj] = &v
					continue
				}
				if len(vs.Values) != 0 {
					u.fail(st.Pos(), "declaration not understood")
				}
				if n, ok := isByteArray(obj.Type()); ok {
					a := symval{kind: sArr, elems: make([]symval, n)}
					env[obj] = &a
				} else if unsignedBits(obj.Type()) > 0 {
					env[obj] = &symval{kind: sConst}
				} else {
					u.fail(st.Pos(), "variable of type %s not understood", obj.Type().String())
				}
			}
		}
	case *ast.AssignStmt:
		if s.Tok != token.ASSIGN && s.Tok != token.DEFINE {
			u.fail(st.Pos(), "assignment operator %s not understood", s.Tok.String())
		}
		var vals []symval
		if len(s.Rhs) == 1 && len(s.Lhs) > 1 {
			t := u.eval(s.Rhs[0], env)
			if t.kind != sTuple || len(t.elems) != len(s.Lhs) {
				u.fail(st.Pos(), "tuple assignment not understood")
			}
			vals = t.elems
		} else if len(s.Rhs) == len(s.Lhs) {
			for _, r := range s.Rhs {
				vals = append(vals, u.eval(r, env)) // all right-hand sides first (parallel assignment)
			}
		} else {
			u.fail(st.Pos(), "assignment not understood")
		}
		for i, lh := range s.Lhs {
			v := vals[i]
			switch t := lh.(type) {
			case *ast.Ident:
				if t.Name == "_" {
					continue
				}
				obj := u.p.info.Defs[t]
				if obj == nil {
					obj = u.p.info.Uses[t]
				}
				if _, isVar := obj.(*types.Var); !isVar || obj.Parent() == u.p.pkg.Scope() {
					u.fail(lh.Pos(), "assignment to %s not understood", t.Name)
				}
				if v.kind == sConst || v.kind == sPar {
					v = u.convert(v, obj.Type(), lh.Pos())
				}
				nv := v
				env[obj] = &nv
			case *ast.IndexExpr:
				id, ok := ast.Unparen(t.X).(*ast.Ident)
				idx, okc := u.constOf(t.Index)
				if !ok || !okc || idx.kind != sConst {
					u.fail(lh.Pos(), "indexed assignment not understood")
				}
				obj := u.p.info.Uses[id]
				a, have := env[obj]
				if !have || a.kind != sArr || idx.c < 0 || idx.c >= int64(len(a.elems)) {
					u.fail(lh.Pos(), "indexed assignment not understood")
				}
				el := u.convert(u.scalar(v, lh.Pos()), obj.Type().Underlying().(*types.Array).Elem(), lh.Pos())
				na := symval{kind: sArr, elems: append([]symval(nil), a.elems...)}
				na.elems[idx.c] = el
				env[obj] = &na
			default:
				u.fail(lh.Pos(), "assignment target not understood")
			}
		}
	default:
		u.fail(st.Pos(), "statement not understood by the evaluator")
	}
}

// ---------------------------------------------------------------- flags tracker and emit kinds

func (u *emUnit) methodByName(recvType, name string) *types.Func {
	for fo := range u.decls {
		sig := fo.Type().(*types.Signature)
		if sig.Recv() == nil || fo.Name() != name {
			continue
		}
		t := sig.Recv().Type()
		if p, ok := t.(*types.Pointer); ok {
			t = p.Elem()
		}
		if n, ok := t.(*types.Named); ok && n.Obj().Name() == recvType {
			return fo
		}
	}
	return nil
}

// ---- the four tracker functions are recognised by WHAT THEY COMPUTE, not by how they are spelled: their bodies are
// evaluated concretely over the whole domain (8-bit tracker, 8-bit operand) by the small interpreter below, and the
// result table is compared with the intended function (t & MASK == 0;  t &^ c;  t | c).  Only when the interpreter
// meets a construct it does not know do the syntactic patterns further down get their say.

type u8env struct {
	recv  types.Object // the receiver variable (value or pointer to the 8-bit tracker)
	recvV uint64
	par   types.Object // the single parameter, if any
	parV  uint64
}

// evalU8 evaluates a pure integer / boolean expression; ok=false when a construct is not understood.
func (u *emUnit) evalU8(e ast.Expr, env *u8env) (val uint64, isBool bool, ok bool) {
	e = ast.Unparen(e)
	if tv, has := u.p.info.Types[e]; has && tv.Value != nil && tv.Value.Kind() == constant.Int {
		if v, exact := constant.Uint64Val(tv.Value); exact {
			return u.truncTo(v, tv.Type), false, true
		}
		return 0, false, false
	}
	switch x := e.(type) {
	case *ast.Ident:
		o := u.p.info.Uses[x]
		if o != nil && o == env.recv {
			if _, isPtr := o.Type().(*types.Pointer); isPtr {
				return 0, false, false
			}
			return env.recvV, false, true
		}
		if o != nil && o == env.par {
			return env.parV, false, true
		}
		return 0, false, false
	case *ast.StarExpr:
		if id, isId := ast.Unparen(x.X).(*ast.Ident); isId && u.p.info.Uses[id] == env.recv {
			if _, isPtr := env.recv.Type().(*types.Pointer); isPtr {
				return env.recvV, false, true
			}
		}
		return 0, false, false
	case *ast.CallExpr:
		if tv, has := u.p.info.Types[x.Fun]; has && tv.IsType() && len(x.Args) == 1 {
			v, b, ok := u.evalU8(x.Args[0], env)
			if !ok || b || unsignedBits(tv.Type) == 0 {
				return 0, false, false
			}
			return u.truncTo(v, tv.Type), false, true
		}
		return 0, false, false
	case *ast.UnaryExpr:
		v, b, ok := u.evalU8(x.X, env)
		if !ok {
			return 0, false, false
		}
		switch x.Op {
		case token.XOR:
			if b {
				return 0, false, false
			}
			return u.truncTo(^v, u.p.info.TypeOf(e)), false, true
		case token.NOT:
			if !b {
				return 0, false, false
			}
			return 1 - v, true, true
		}
		return 0, false, false
	case *ast.BinaryExpr:
		a, ab, ok1 := u.evalU8(x.X, env)
		c, cb, ok2 := u.evalU8(x.Y, env)
		if !ok1 || !ok2 || ab != cb {
			return 0, false, false
		}
		bv := func(t bool) (uint64, bool, bool) {
			if t {
				return 1, true, true
			}
			return 0, true, true
		}
		if ab {
			switch x.Op {
			case token.LAND:
				return bv(a == 1 && c == 1)
			case token.LOR:
				return bv(a == 1 || c == 1)
			case token.EQL:
				return bv(a == c)
			case token.NEQ:
				return bv(a != c)
			}
			return 0, false, false
		}
		t := u.p.info.TypeOf(e)
		switch x.Op {
		case token.AND:
			return u.truncTo(a&c, t), false, true
		case token.OR:
			return u.truncTo(a|c, t), false, true
		case token.XOR:
			return u.truncTo(a^c, t), false, true
		case token.AND_NOT:
			return u.truncTo(a&^c, t), false, true
		case token.ADD:
			return u.truncTo(a+c, t), false, true
		case token.SUB:
			return u.truncTo(a-c, t), false, true
		case token.EQL:
			return bv(a == c)
		case token.NEQ:
			return bv(a != c)
		case token.LSS:
			return bv(a < c)
		case token.LEQ:
			return bv(a <= c)
		case token.GTR:
			return bv(a > c)
		case token.GEQ:
			return bv(a >= c)
		}
	}
	return 0, false, false
}

func (u *emUnit) truncTo(v uint64, t types.Type) uint64 {
	if w := unsignedBits(t); w > 0 && w < 64 {
		return v & (1<<uint(w) - 1)
	}
	return v
}

// trackerEnv: receiver/parameter objects of a tracker method with an 8-bit receiver (value or pointer)
func (u *emUnit) trackerEnv(fo *types.Func) (*u8env, *ast.FuncDecl) {
	d := u.decls[fo]
	if d == nil || d.Body == nil || d.Recv == nil || len(d.Recv.List) != 1 || len(d.Recv.List[0].Names) != 1 {
		return nil, nil
	}
	ro := u.p.info.Defs[d.Recv.List[0].Names[0]]
	if ro == nil {
		return nil, nil
	}
	rt := ro.Type()
	if p, isPtr := rt.(*types.Pointer); isPtr {
		rt = p.Elem()
	}
	if unsignedBits(rt) != 8 {
		return nil, nil
	}
	env := &u8env{recv: ro}
	sig := fo.Type().(*types.Signature)
	if sig.Params().Len() == 1 && unsignedBits(sig.Params().At(0).Type()) == 8 {
		env.par = sig.Params().At(0)
	} else if sig.Params().Len() != 0 {
		return nil, nil
	}
	return env, d
}

// trackerMaskSem: the method returns a bool that equals (t & m == 0) for exactly one 8-bit mask m, for all 256 t
func (u *emUnit) trackerMaskSem(fo *types.Func) (int64, bool) {
	env, d := u.trackerEnv(fo)
	if env == nil || len(d.Body.List) != 1 {
		return 0, false
	}
	rs, isRet := d.Body.List[0].(*ast.ReturnStmt)
	if !isRet || len(rs.Results) != 1 {
		return 0, false
	}
	var tab [256]bool
	for t := 0; t < 256; t++ {
		env.recvV = uint64(t)
		v, b, ok := u.evalU8(rs.Results[0], env)
		if !ok || !b {
			return 0, false
		}
		tab[t] = v == 1
	}
	for m := 1; m < 256; m++ {
		same := true
		for t := 0; t < 256 && same; t++ {
			same = tab[t] == (t&m == 0)
		}
		if same {
			return int64(m), true
		}
	}
	u.fail(fo.Pos(), "%s: evaluated over all 256 tracker values it is not `flags & MASK == 0` for any mask", fo.Name())
	return 0, false
}

// trackerUpdateSem: the method stores, for all 256 x 256 (t, c), t &^ c (rep) or t | c into *t
func (u *emUnit) trackerUpdateSem(fo *types.Func, rep bool) bool {
	env, d := u.trackerEnv(fo)
	if env == nil || env.par == nil || len(d.Body.List) != 1 {
		return false
	}
	if _, isPtr := env.recv.Type().(*types.Pointer); !isPtr {
		return false
	}
	as, isAs := d.Body.List[0].(*ast.AssignStmt)
	if !isAs || len(as.Lhs) != 1 || len(as.Rhs) != 1 {
		return false
	}
	st, isStar := ast.Unparen(as.Lhs[0]).(*ast.StarExpr)
	if !isStar {
		return false
	}
	if id, isId := ast.Unparen(st.X).(*ast.Ident); !isId || u.p.info.Uses[id] != env.recv {
		return false
	}
	for t := 0; t < 256; t++ {
		for c := 0; c < 256; c++ {
			env.recvV, env.parV = uint64(t), uint64(c)
			r, b, ok := u.evalU8(as.Rhs[0], env)
			if !ok || b {
				return false
			}
			var got uint64
			switch as.Tok {
			case token.ASSIGN:
				got = r
			case token.AND_ASSIGN:
				got = uint64(t) & r
			case token.OR_ASSIGN:
				got = uint64(t) | r
			case token.XOR_ASSIGN:
				got = uint64(t) ^ r
			case token.AND_NOT_ASSIGN:
				got = uint64(t) &^ r
			default:
				return false
			}
			got &= 0xff
			want := uint64(t | c)
			if rep {
				want = uint64(t &^ c)
			}
			if got != want {
				u.fail(fo.Pos(), "%s: evaluated at tracker=$%02x operand=$%02x it stores $%02x, expected $%02x", fo.Name(), t, c, got, want)
			}
		}
	}
	return true
}

// trackerMask: body must be `return CONV(recv) & MASK == 0`.
func (u *emUnit) trackerMask(fo *types.Func) int64 {
	if m, ok := u.trackerMaskSem(fo); ok {
		return m
	}
	d := u.decls[fo]
	if d == nil || d.Body == nil || len(d.Body.List) != 1 {
		u.fail(fo.Pos(), "%s: body not understood", fo.Name())
	}
	rs, ok := d.Body.List[0].(*ast.ReturnStmt)
	if !ok || len(rs.Results) != 1 {
		u.fail(fo.Pos(), "%s: body not understood", fo.Name())
	}
	be, ok := ast.Unparen(rs.Results[0]).(*ast.BinaryExpr)
	if !ok || be.Op != token.EQL {
		u.fail(fo.Pos(), "%s: expected `flags & mask == 0`", fo.Name())
	}
	z, ok := u.constOf(be.Y)
	if !ok || z.kind != sConst || z.c != 0 {
		u.fail(fo.Pos(), "%s: expected comparison with 0", fo.Name())
	}
	and, ok := ast.Unparen(be.X).(*ast.BinaryExpr)
	if !ok || and.Op != token.AND {
		u.fail(fo.Pos(), "%s: expected `flags & mask`", fo.Name())
	}
	recv := d.Recv.List[0].Names[0]
	isRecv := func(e ast.Expr) bool {
		e = ast.Unparen(e)
		if c, ok := e.(*ast.CallExpr); ok && len(c.Args) == 1 {
			if tv, ok := u.p.info.Types[c.Fun]; ok && tv.IsType() && unsignedBits(tv.Type) == 8 {
				e = ast.Unparen(c.Args[0])
			}
		}
		id, ok := e.(*ast.Ident)
		return ok && u.p.info.Uses[id] == u.p.info.Defs[recv]
	}
	if m, ok := u.constOf(and.Y); ok && m.kind == sConst && isRecv(and.X) {
		return m.c
	}
	if m, ok := u.constOf(and.X); ok && m.kind == sConst && isRecv(and.Y) {
		return m.c
	}
	u.fail(fo.Pos(), "%s: expected `flags & constant`", fo.Name())
	return 0
}

// trackerUpdate checks AssumeREP (`*t &= ^T(c)` or `*t &^= T(c)`) / AssumeSEP (`*t |= T(c)`).
func (u *emUnit) trackerUpdate(fo *types.Func, rep bool) {
	if u.trackerUpdateSem(fo, rep) {
		return
	}
	d := u.decls[fo]
	if d == nil || d.Body == nil || len(d.Body.List) != 1 {
		u.fail(fo.Pos(), "%s: body not understood", fo.Name())
	}
	as, ok := d.Body.List[0].(*ast.AssignStmt)
	if !ok || len(as.Lhs) != 1 || len(as.Rhs) != 1 {
		u.fail(fo.Pos(), "%s: body not understood", fo.Name())
	}
	st, ok := as.Lhs[0].(*ast.StarExpr)
	recv := d.Recv.List[0].Names[0]
	if !ok {
		u.fail(fo.Pos(), "%s: expected an update of *%s", fo.Name(), recv.Name)
	}
	if id, ok := st.X.(*ast.Ident); !ok || u.p.info.Uses[id] != u.p.info.Defs[recv] {
		u.fail(fo.Pos(), "%s: expected an update of *%s", fo.Name(), recv.Name)
	}
	if unsignedBits(u.p.info.Defs[recv].Type().(*types.Pointer).Elem()) != 8 {
		u.fail(fo.Pos(), "%s: tracker is not 8 bits wide", fo.Name())
	}
	sig := fo.Type().(*types.Signature)
	isParam := func(e ast.Expr) bool {
		e = ast.Unparen(e)
		if c, ok := e.(*ast.CallExpr); ok && len(c.Args) == 1 {
			if tv, ok := u.p.info.Types[c.Fun]; ok && tv.IsType() && unsignedBits(tv.Type) == 8 {
				e = ast.Unparen(c.Args[0])
			}
		}
		id, ok := e.(*ast.Ident)
		return ok && sig.Params().Len() == 1 && u.p.info.Uses[id] == sig.Params().At(0)
	}
	rhs := ast.Unparen(as.Rhs[0])
	if rep {
		if as.Tok == token.AND_NOT_ASSIGN && isParam(rhs) {
			return
		}
		if un, ok := rhs.(*ast.UnaryExpr); ok && as.Tok == token.AND_ASSIGN && un.Op == token.XOR && isParam(un.X) {
			return
		}
		u.fail(fo.Pos(), "%s: expected `*t &= ^T(c)`", fo.Name())
	}
	if as.Tok == token.OR_ASSIGN && isParam(rhs) {
		return
	}
	u.fail(fo.Pos(), "%s: expected `*t |= T(c)`", fo.Name())
}

func (u *emUnit) kindOf(fo *types.Func, pos token.Pos) *emitKind {
	if k, ok := u.kinds[fo.Name()]; ok {
		return k
	}
	d := u.decls[fo]
	sig := fo.Type().(*types.Signature)
	if d == nil || d.Body == nil || sig.Recv() == nil || sig.Params().Len() == 0 || sig.Results().Len() != 0 {
		u.fail(pos, "%s is not an emit kind", fo.Name())
	}
	k := &emitKind{name: fo.Name(), pIns: -1, pFmt: -1, pLabel: -1, pArr: -1, written: -1, adv: -1}
	for i := 0; i < sig.Params().Len(); i++ {
		pv := sig.Params().At(i)
		if n, ok := isByteArray(pv.Type()); ok {
			if k.pArr >= 0 {
				u.fail(pos, "%s: two array parameters", fo.Name())
			}
			k.pArr, k.arr = i, n
			continue
		}
		if b, ok := pv.Type().(*types.Basic); !ok || b.Kind() != types.String {
			u.fail(pos, "%s: parameter %s not understood", fo.Name(), pv.Name())
		}
		switch pv.Name() {
		case "ins":
			k.pIns = i
		case "argsFormat":
			k.pFmt = i
		case "label":
			k.pLabel = i
		default:
			u.fail(pos, "%s: string parameter %s not understood", fo.Name(), pv.Name())
		}
	}
	if k.pArr < 0 || k.pIns < 0 {
		u.fail(pos, "%s is not an emit kind", fo.Name())
	}
	recv := u.p.info.Defs[d.Recv.List[0].Names[0]]
	arrObj := sig.Params().At(k.pArr)
	// scan the body: write(arr[:]) once, `recv.address += C` once (top level, unconditional), dangling list
	for _, st := range d.Body.List {
		switch s := st.(type) {
		case *ast.AssignStmt:
			// `_, _ = a.write(d[:])`  or  `a.address += N`
			if len(s.Rhs) == 1 {
				if c, ok := s.Rhs[0].(*ast.CallExpr); ok {
					if g := u.callee(c); g != nil && g.Name() == "write" && len(c.Args) == 1 {
						sl, ok := c.Args[0].(*ast.SliceExpr)
						if !ok || sl.Low != nil || sl.High != nil || sl.Max != nil {
							u.fail(st.Pos(), "%s: write() argument is not the whole array", fo.Name())
						}
						if id, ok := sl.X.(*ast.Ident); !ok || u.p.info.Uses[id] != arrObj {
							u.fail(st.Pos(), "%s: write() argument is not the array parameter", fo.Name())
						}
						if k.written >= 0 {
							u.fail(st.Pos(), "%s: two calls of write()", fo.Name())
						}
						k.written = k.arr
						continue
					}
				}
			}
			if s.Tok == token.ADD_ASSIGN && len(s.Lhs) == 1 {
				if se, ok := s.Lhs[0].(*ast.SelectorExpr); ok && se.Sel.Name == "address" {
					if id, ok := se.X.(*ast.Ident); ok && u.p.info.Uses[id] == recv {
						c, okc := u.constOf(s.Rhs[0])
						if !okc || c.kind != sConst || k.adv >= 0 {
							u.fail(st.Pos(), "%s: address update not understood", fo.Name())
						}
						k.adv = c.c
						continue
					}
				}
			}
			u.fail(st.Pos(), "%s: statement not understood", fo.Name())
		case *ast.ExprStmt:
			c, ok := s.X.(*ast.CallExpr)
			if !ok {
				u.fail(st.Pos(), "%s: statement not understood", fo.Name())
			}
			g := u.callee(c)
			if g == nil {
				u.fail(st.Pos(), "%s: call not understood", fo.Name())
			}
			switch g.Name() {
			case "write":
				u.fail(st.Pos(), "%s: write() in an unexpected form", fo.Name())
			case "addDanglingS8", "addDanglingU16":
				if k.pLabel < 0 || len(c.Args) != 1 || k.label != 0 {
					u.fail(st.Pos(), "%s: dangling reference not understood", fo.Name())
				}
				if id, ok := c.Args[0].(*ast.Ident); !ok || u.p.info.Uses[id] != sig.Params().At(k.pLabel) {
					u.fail(st.Pos(), "%s: dangling reference is not the label parameter", fo.Name())
				}
				if k.adv < 0 {
					u.fail(st.Pos(), "%s: dangling reference recorded before the address is advanced", fo.Name())
				}
				k.label = 1
				if g.Name() == "addDanglingU16" {
					k.label = 2
				}
			default:
				u.fail(st.Pos(), "%s: call of %s not understood", fo.Name(), g.Name())
			}
		case *ast.IfStmt:
			// the listing branch `if a.generateText { ... }` must not touch code, n or address
			cond, ok := s.Cond.(*ast.SelectorExpr)
			if !ok || cond.Sel.Name != "generateText" || s.Else != nil || s.Init != nil {
				u.fail(st.Pos(), "%s: conditional not understood", fo.Name())
			}
			ast.Inspect(s.Body, func(n ast.Node) bool {
				switch y := n.(type) {
				case *ast.CallExpr:
					if g := u.callee(y); g != nil && g.Pkg() == u.p.pkg && g.Name() != "emitBase" {
						u.fail(y.Pos(), "%s: call of %s inside the listing branch", fo.Name(), g.Name())
					}
				case *ast.AssignStmt:
					for _, lh := range y.Lhs {
						if se, ok := lh.(*ast.SelectorExpr); ok && se.Sel.Name != "lines" {
							u.fail(y.Pos(), "%s: listing branch assigns %s", fo.Name(), se.Sel.Name)
						}
					}
				case *ast.IncDecStmt:
					u.fail(y.Pos(), "%s: listing branch not understood", fo.Name())
				}
				return true
			})
		default:
			u.fail(st.Pos(), "%s: statement not understood", fo.Name())
		}
	}
	if k.written < 0 || k.adv < 0 {
		u.fail(pos, "%s: no write() or no address update found", fo.Name())
	}
	if (k.pLabel >= 0) != (k.label != 0) {
		u.fail(pos, "%s: label parameter and dangling reference do not match", fo.Name())
	}
	u.kinds[fo.Name()] = k
	u.korder = append(u.korder, fo.Name())
	return k
}

// ---------------------------------------------------------------- one instruction method

func (u *emUnit) method(fo *types.Func) emDesc {
	d := u.decls[fo]
	sig := fo.Type().(*types.Signature)
	out := emDesc{name: fo.Name(), pos: fo.Pos(), guard: "GNone", effect: "ENone"}
	if sig.Results().Len() != 0 || sig.Variadic() {
		u.fail(fo.Pos(), "%s: results / variadic parameters not supported", fo.Name())
	}
	env := emEnv{}
	paramIdx := map[types.Object]int{}
	for i := 0; i < sig.Params().Len(); i++ {
		pv := sig.Params().At(i)
		ty, bits, signed := u.paramType(pv.Type(), pv.Pos())
		out.pnames = append(out.pnames, pv.Name())
		out.ptys = append(out.ptys, ty)
		paramIdx[pv] = i
		switch {
		case ty == "TLabel":
			env[pv] = &symval{kind: sLabel, i: i}
		case signed:
			env[pv] = &symval{kind: sPar, i: i, w: -1}
		default:
			env[pv] = &symval{kind: sPar, i: i, w: bits}
		}
	}
	recv := u.p.info.Defs[d.Recv.List[0].Names[0]]
	isRecvCall := func(c *ast.CallExpr) (*types.Func, bool) {
		se, ok := ast.Unparen(c.Fun).(*ast.SelectorExpr)
		if !ok {
			return nil, false
		}
		id, ok := ast.Unparen(se.X).(*ast.Ident)
		if !ok || u.p.info.Uses[id] != recv {
			return nil, false
		}
		g := u.callee(c)
		return g, g != nil
	}
	emitted := false
	for _, st := range d.Body.List {
		if emitted {
			u.fail(st.Pos(), "%s: statement after the emit call", fo.Name())
		}
		switch s := st.(type) {
		case *ast.IfStmt:
			if s.Init != nil || s.Else != nil || out.guard != "GNone" || out.effect != "ENone" {
				u.fail(st.Pos(), "%s: conditional not understood (one width guard in front is supported)", fo.Name())
			}
			cond := ast.Unparen(s.Cond)
			neg := false
			if un, ok := cond.(*ast.UnaryExpr); ok && un.Op == token.NOT {
				neg = true
				cond = ast.Unparen(un.X)
			}
			c, ok := cond.(*ast.CallExpr)
			if !ok || len(c.Args) != 0 {
				u.fail(st.Pos(), "%s: guard condition not understood", fo.Name())
			}
			g, ok := isRecvCall(c)
			if !ok {
				u.fail(st.Pos(), "%s: guard condition not understood", fo.Name())
			}
			switch {
			case g.Name() == "IsM16bit" && !neg:
				out.guard = "GPanicIfM16"
			case g.Name() == "IsM16bit" && neg:
				out.guard = "GPanicIfM8"
			case g.Name() == "IsX16bit" && !neg:
				out.guard = "GPanicIfX16"
			case g.Name() == "IsX16bit" && neg:
				out.guard = "GPanicIfX8"
			default:
				u.fail(st.Pos(), "%s: guard calls %s", fo.Name(), g.Name())
			}
			if u.trackerFn(g.Name()) != g {
				u.fail(st.Pos(), "%s: %s is not the flags tracker's method", fo.Name(), g.Name())
			}
			if len(s.Body.List) != 1 {
				u.fail(st.Pos(), "%s: guard body is not a single panic", fo.Name())
			}
			if !u.isPanicStmt(s.Body.List[0]) {
				u.fail(st.Pos(), "%s: guard body is not a single panic", fo.Name())
			}
		case *ast.ExprStmt:
			c, ok := s.X.(*ast.CallExpr)
			if !ok {
				u.fail(st.Pos(), "%s: statement not understood", fo.Name())
			}
			g, ok := isRecvCall(c)
			if !ok {
				u.fail(st.Pos(), "%s: call not understood", fo.Name())
			}
			if gk, isGuard := u.guardHelper(g); isGuard {
				// a private helper that IS the width guard (requireM8(name) ...): same descriptor as the inline guard
				if out.guard != "GNone" || out.effect != "ENone" {
					u.fail(st.Pos(), "%s: a second width guard / a guard after the tracker update", fo.Name())
				}
				out.guard = gk
				continue
			}
			if g.Name() == "AssumeREP" || g.Name() == "AssumeSEP" {
				if u.trackerFn(g.Name()) != g || len(c.Args) != 1 || out.effect != "ENone" {
					u.fail(st.Pos(), "%s: tracker update not understood", fo.Name())
				}
				v := u.eval(c.Args[0], env)
				if v.kind != sPar || v.k != 0 || v.w != 8 {
					u.fail(st.Pos(), "%s: tracker update with something other than an 8-bit parameter", fo.Name())
				}
				if g.Name() == "AssumeREP" {
					out.effect = fmt.Sprintf("ERep %d", v.i)
				} else {
					out.effect = fmt.Sprintf("ESep %d", v.i)
				}
				continue
			}
			// the emit call
			k := u.kindOf(g, c.Pos())
			if len(c.Args) != g.Type().(*types.Signature).Params().Len() {
				u.fail(st.Pos(), "%s: bad emit call", fo.Name())
			}
			out.kind = k.name
			ins := u.eval(c.Args[k.pIns], env)
			if ins.kind != sStr {
				u.fail(st.Pos(), "%s: mnemonic is not a string constant", fo.Name())
			}
			out.ins = ins.s
			if k.pFmt >= 0 {
				f := u.eval(c.Args[k.pFmt], env)
				if f.kind != sStr {
					u.fail(st.Pos(), "%s: argsFormat is not a string constant", fo.Name())
				}
				out.fmtS = f.s
			}
			labelUsed := false
			if k.pLabel >= 0 {
				lv := u.eval(c.Args[k.pLabel], env)
				if lv.kind != sLabel {
					u.fail(st.Pos(), "%s: label argument is not the method's string parameter", fo.Name())
				}
				labelUsed = true
			}
			for i, t := range out.ptys {
				if t == "TLabel" && !labelUsed {
					u.fail(st.Pos(), "%s: string parameter %s is not passed as the label", fo.Name(), out.pnames[i])
				}
			}
			arr := u.eval(c.Args[k.pArr], env)
			if arr.kind != sArr || int64(len(arr.elems)) != k.arr {
				u.fail(st.Pos(), "%s: emitted array not understood", fo.Name())
			}
			for bi, el := range arr.elems {
				switch el.kind {
				case sConst:
					if el.c < 0 || el.c > 255 {
						u.fail(st.Pos(), "%s: byte %d is the constant %d", fo.Name(), bi, el.c)
					}
					out.bytes = append(out.bytes, fmt.Sprintf("BConst %d", el.c))
				case sPar:
					if el.w != 8 {
						u.fail(st.Pos(), "%s: byte %d keeps %d bits of parameter %d (only byte(p >> k) is supported)", fo.Name(), bi, el.w, el.i)
					}
					out.bytes = append(out.bytes, fmt.Sprintf("BPar %d %d", el.i, el.k))
				default:
					u.fail(st.Pos(), "%s: byte %d not understood", fo.Name(), bi)
				}
			}
			emitted = true
		default:
			u.localStmt(st, env)
		}
	}
	if !emitted {
		u.fail(fo.Pos(), "%s reaches write() but no emit call was found at the top level of its body", fo.Name())
	}
	return out
}

// widthCond recognises [!]recv.IsM16bit() / [!]recv.IsX16bit() (the flags tracker's methods) and returns the guard that
// panics exactly when the condition holds
func (u *emUnit) widthCond(cond ast.Expr, recv types.Object) (string, bool) {
	cond = ast.Unparen(cond)
	neg := false
	if un, ok := cond.(*ast.UnaryExpr); ok && un.Op == token.NOT {
		neg = true
		cond = ast.Unparen(un.X)
	}
	c, ok := cond.(*ast.CallExpr)
	if !ok || len(c.Args) != 0 {
		return "", false
	}
	se, ok := ast.Unparen(c.Fun).(*ast.SelectorExpr)
	if !ok {
		return "", false
	}
	id, ok := ast.Unparen(se.X).(*ast.Ident)
	if !ok || u.p.info.Uses[id] != recv {
		return "", false
	}
	g := u.callee(c)
	if g == nil || u.trackerFn(g.Name()) != g {
		return "", false
	}
	switch {
	case g.Name() == "IsM16bit" && !neg:
		return "GPanicIfM16", true
	case g.Name() == "IsM16bit" && neg:
		return "GPanicIfM8", true
	case g.Name() == "IsX16bit" && !neg:
		return "GPanicIfX16", true
	case g.Name() == "IsX16bit" && neg:
		return "GPanicIfX8", true
	}
	return "", false
}

var guardNegate = map[string]string{"GPanicIfM16": "GPanicIfM8", "GPanicIfM8": "GPanicIfM16", "GPanicIfX16": "GPanicIfX8", "GPanicIfX8": "GPanicIfX16"}

// guardHelper: is g a private method whose whole body is a width guard?  Two spellings:
//	if COND { panic(...) }                 panics iff COND
//	if COND { return }; panic(...)         panics iff not COND
// Its parameters (the method name for the message) can then only occur inside the panic argument.
func (u *emUnit) guardHelper(g *types.Func) (string, bool) {
	d := u.decls[g]
	if d == nil || d.Body == nil || d.Recv == nil || len(d.Recv.List) != 1 || len(d.Recv.List[0].Names) != 1 {
		return "", false
	}
	if g.Type().(*types.Signature).Results().Len() != 0 {
		return "", false
	}
	recv := u.p.info.Defs[d.Recv.List[0].Names[0]]
	body := d.Body.List
	if len(body) < 1 || len(body) > 2 {
		return "", false
	}
	ifs, ok := body[0].(*ast.IfStmt)
	if !ok || ifs.Init != nil || ifs.Else != nil || len(ifs.Body.List) != 1 {
		return "", false
	}
	gk, ok := u.widthCond(ifs.Cond, recv)
	if !ok {
		return "", false
	}
	if len(body) == 1 {
		if u.isPanicStmt(ifs.Body.List[0]) {
			return gk, true
		}
		return "", false
	}
	ret, ok := ifs.Body.List[0].(*ast.ReturnStmt)
	if !ok || len(ret.Results) != 0 || !u.isPanicStmt(body[1]) {
		return "", false
	}
	return guardNegate[gk], true
}

func (u *emUnit) isPanicStmt(st ast.Stmt) bool {
	es, ok := st.(*ast.ExprStmt)
	if !ok {
		return false
	}
	pc, ok := es.X.(*ast.CallExpr)
	if !ok {
		return false
	}
	id, ok := pc.Fun.(*ast.Ident)
	if !ok {
		return false
	}
	b, ok := u.p.info.Uses[id].(*types.Builtin)
	return ok && b.Name() == "panic"
}

func (u *emUnit) trackerFn(name string) *types.Func {
	return u.methodByName("flagsTracker", name)
}

// ---------------------------------------------------------------- the unit

func cpuModeConsts(l *loader, pkg string) [][2]string {
	p, err := l.load(modPath + "/" + pkg)
	if err != nil {
		panic(terr{err.Error()})
	}
	var out [][2]string
	sc := p.pkg.Scope()
	for _, n := range sc.Names() {
		if !strings.HasPrefix(n, "m_") {
			continue
		}
		if c, ok := sc.Lookup(n).(*types.Const); ok && c.Val().Kind() == constant.Int {
			out = append(out, [2]string{n, c.Val().ExactString()})
		}
	}
	if len(out) == 0 {
		panic(terr{"no addressing-mode constants m_* found in " + pkg})
	}
	return out
}

// cpuOpcodeTable reads the 256-entry instructionType literal of a CPU package: (opcode, name, mode, size, cycles, proc).
func cpuOpcodeTable(l *loader, pkg string) []string {
	p, err := l.load(modPath + "/" + pkg)
	if err != nil {
		panic(terr{err.Error()})
	}
	var lit *ast.CompositeLit
	for _, f := range p.files {
		ast.Inspect(f, func(n ast.Node) bool {
			cl, ok := n.(*ast.CompositeLit)
			if !ok {
				return true
			}
			tv, ok := p.info.Types[cl]
			if !ok {
				return true
			}
			at, ok := tv.Type.Underlying().(*types.Array)
			if !ok {
				return true
			}
			if n, ok := at.Elem().(*types.Named); ok && n.Obj().Name() == "instructionType" {
				if lit != nil {
					panic(terr{"two instruction tables in " + pkg})
				}
				lit = cl
				return false
			}
			return true
		})
	}
	if lit == nil {
		panic(terr{"instruction table not found in " + pkg})
	}
	var out []string
	for _, e := range lit.Elts {
		cl, ok := e.(*ast.CompositeLit)
		if !ok || len(cl.Elts) != 6 {
			panic(terr{l.pos(e.Pos()) + ": unexpected instruction table element"})
		}
		var f [5]string
		for i := 0; i < 5; i++ {
			tv := p.info.Types[cl.Elts[i]]
			if tv.Value == nil {
				panic(terr{l.pos(cl.Elts[i].Pos()) + ": non-constant table field"})
			}
			if tv.Value.Kind() == constant.String {
				f[i] = coqStr(constant.StringVal(tv.Value))
			} else {
				f[i] = tv.Value.ExactString()
			}
		}
		proc := ""
		switch pe := cl.Elts[5].(type) {
		case *ast.Ident:
			proc = pe.Name
		case *ast.SelectorExpr:
			proc = pe.Sel.Name
		}
		out = append(out, fmt.Sprintf("(%s, %s, %s, %s, %s, %s)", f[0], f[1], f[2], f[3], f[4], coqStr(proc)))
	}
	if len(out) != 256 {
		panic(terr{fmt.Sprintf("instruction table of %s has %d entries", pkg, len(out))})
	}
	return out
}

func genEmitter(l *loader, dir string) {
	p, err := l.load(modPath + "/asm")
	if err != nil {
		panic(terr{err.Error()})
	}
	writeSourceHashes(l, p, dir)
	u := &emUnit{l: l, p: p, decls: map[*types.Func]*ast.FuncDecl{}, kinds: map[string]*emitKind{}}
	for _, f := range p.files {
		for _, dcl := range f.Decls {
			if fd, ok := dcl.(*ast.FuncDecl); ok {
				if fo, ok := p.info.Defs[fd.Name].(*types.Func); ok {
					u.decls[fo] = fd
				}
			}
		}
	}
	em := p.pkg.Scope().Lookup("Emitter")
	if em == nil {
		u.fail(token.NoPos, "type Emitter not found in package asm")
	}
	// flags tracker
	for _, n := range []string{"IsM16bit", "IsX16bit", "AssumeREP", "AssumeSEP"} {
		if u.trackerFn(n) == nil {
			u.fail(token.NoPos, "flagsTracker.%s not found", n)
		}
	}
	u.maskM = u.trackerMask(u.trackerFn("IsM16bit"))
	u.maskX = u.trackerMask(u.trackerFn("IsX16bit"))
	u.trackerUpdate(u.trackerFn("AssumeREP"), true)
	u.trackerUpdate(u.trackerFn("AssumeSEP"), false)

	ms := types.NewMethodSet(types.NewPointer(em.Type()))
	var descs []emDesc
	var others []string
	for i := 0; i < ms.Len(); i++ {
		fo := ms.At(i).Obj().(*types.Func)
		if !fo.Exported() {
			continue
		}
		if fo.Name() == "EmitBytes" || fo.Name() == "Append" || !u.reaches(fo, "write", map[*types.Func]bool{}) {
			others = append(others, fo.Name())
			continue
		}
		descs = append(descs, u.method(fo))
	}
	sort.Slice(descs, func(i, j int) bool { return descs[i].pos < descs[j].pos })
	sort.Strings(others)
	if len(descs) == 0 {
		u.fail(token.NoPos, "no instruction methods found")
	}

	var b strings.Builder
	b.WriteString("(* GENERATED by /verif/gen (unit emitter) from asm/emitter.go and asm/flags.go -- do not edit *)\n")
	b.WriteString("From Coq Require Import List ZArith String.\nFrom Spec Require Import EmitSpec.\nFrom Model Require Import EmitDesc.\nImport ListNotations.\nLocal Open Scope string_scope.\nLocal Open Scope Z_scope.\n\n")
	fmt.Fprintf(&b, "Definition tracker_info : tracker := {| tk_m := %d; tk_x := %d |}.\n\n", u.maskM, u.maskX)
	b.WriteString("Definition kinds : list ekind := [\n")
	sort.Strings(u.korder)
	for i, n := range u.korder {
		k := u.kinds[n]
		sep := ";"
		if i == len(u.korder)-1 {
			sep = ""
		}
		fmt.Fprintf(&b, "  {| k_name := %s; k_arr := %d; k_written := %d; k_adv := %d; k_label := %d |}%s\n", coqStr(k.name), k.arr, k.written, k.adv, k.label, sep)
	}
	b.WriteString("].\n\nDefinition methods : list desc := [\n")
	var names []string
	for i, d := range descs {
		sep := ";"
		if i == len(descs)-1 {
			sep = ""
		}
		var pn []string
		for _, n := range d.pnames {
			pn = append(pn, coqStr(n))
		}
		fmt.Fprintf(&b, "  {| d_name := %s; d_pnames := [%s]; d_ptys := [%s]; d_bytes := [%s];\n     d_guard := %s; d_effect := %s; d_kind := %s; d_ins := %s; d_fmt := %s |}%s\n",
			coqStr(d.name), strings.Join(pn, "; "), strings.Join(d.ptys, "; "), strings.Join(d.bytes, "; "),
			d.guard, d.effect, coqStr(d.kind), coqStr(d.ins), coqStr(d.fmtS), sep)
		names = append(names, d.name)
	}
	b.WriteString("].\n\n")
	fmt.Fprintf(&b, "Definition other_methods : list string := [%s].\n\n", quoteJoin(others))
	for _, c := range [][2]string{{"cpu65_modes", "emulator/cpu65c816"}, {"cpualt_modes", "emulator/cpualt"}} {
		fmt.Fprintf(&b, "Definition %s : list (string * Z) := [", c[0])
		for i, m := range cpuModeConsts(l, c[1]) {
			if i > 0 {
				b.WriteString("; ")
			}
			fmt.Fprintf(&b, "(%s, %s)", coqStr(m[0]), m[1])
		}
		b.WriteString("].\n")
	}
	for _, c := range [][2]string{{"cpu65_table", "emulator/cpu65c816"}, {"cpualt_table", "emulator/cpualt"}} {
		fmt.Fprintf(&b, "\nDefinition %s : list (Z * string * Z * Z * Z * string) := [\n  %s\n].\n", c[0], strings.Join(cpuOpcodeTable(l, c[1]), ";\n  "))
	}
	writeFile(dir, "GenEmitter.v", b.String())
	summary["GenEmitter"] = names
	summary["GenEmitter_others"] = others
}
