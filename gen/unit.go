package main

import (
	"fmt"
	"go/ast"
	"go/constant"
	"go/token"
	"go/types"
	"sort"
	"strings"
)

func newUnit(l *loader, mode string, stateTypes map[string]string) *unit {
	return &unit{l: l, mode: mode, stateTypes: stateTypes,
		funcs: map[*types.Func]*fn{}, byDecl: map[*types.Func]*ast.FuncDecl{}, declPkg: map[*types.Func]*pkgInfo{},
		inprog: map[*types.Func]bool{}, tables: map[types.Object]*table{}, fields: map[string]fieldInfo{}, ghost: map[string]bool{}}
}

func (u *unit) addPkg(p *pkgInfo) {
	for _, f := range p.files {
		for _, d := range f.Decls {
			fd, ok := d.(*ast.FuncDecl)
			if !ok || fd.Body == nil {
				continue
			}
			if o, ok := p.info.Defs[fd.Name].(*types.Func); ok {
				u.byDecl[o] = fd
				u.declPkg[o] = p
			}
		}
	}
}

// collectFields flattens the integer/bool fields reachable from struct type t.
func (u *unit) collectFields(t types.Type, prefix string, depth int) {
	if p, ok := t.(*types.Pointer); ok {
		t = p.Elem()
	}
	st, ok := t.Underlying().(*types.Struct)
	if !ok || depth > 3 {
		return
	}
	for i := 0; i < st.NumFields(); i++ {
		f := st.Field(i)
		ft := f.Type()
		if isBool(ft) {
			u.fields[prefix+f.Name()] = fieldInfo{"f_" + prefix + f.Name(), 1, true}
			continue
		}
		if w, ok := intWidth(ft); ok && w > 0 {
			u.fields[prefix+f.Name()] = fieldInfo{"f_" + prefix + f.Name(), w, false}
			continue
		}
		ft2 := ft
		if p, ok := ft2.(*types.Pointer); ok {
			ft2 = p.Elem()
		}
		if _, ok := ft2.Underlying().(*types.Struct); ok {
			if _, isNamed := ft2.(*types.Named); isNamed {
				u.collectFields(ft2, prefix+f.Name()+"_", depth+1)
			}
		}
	}
}

// byteTable registers a package-level [N]byte array literal as a lookup function.
func (u *unit) byteTables(p *pkgInfo) {
	for _, f := range p.files {
		for _, d := range f.Decls {
			gd, ok := d.(*ast.GenDecl)
			if !ok || gd.Tok != token.VAR {
				continue
			}
			for _, sp := range gd.Specs {
				vs := sp.(*ast.ValueSpec)
				for i, id := range vs.Names {
					if i >= len(vs.Values) {
						continue
					}
					cl, ok := vs.Values[i].(*ast.CompositeLit)
					if !ok {
						continue
					}
					at, ok := p.info.Types[cl].Type.Underlying().(*types.Array)
					if !ok {
						continue
					}
					if w, ok := intWidth(at.Elem()); !ok || w == 0 {
						continue
					}
					var vals []string
					for _, e := range cl.Elts {
						if _, ok := e.(*ast.KeyValueExpr); ok {
							u.fail(e.Pos(), "keyed array literal")
						}
						tv := p.info.Types[e]
						if tv.Value == nil || tv.Value.Kind() != constant.Int {
							u.fail(e.Pos(), "non-constant table element")
						}
						vals = append(vals, litInt(tv.Value))
					}
					for int64(len(vals)) < at.Len() {
						vals = append(vals, "0")
					}
					u.tables[p.info.Defs[id]] = &table{coq: "tab_" + id.Name, vals: vals}
				}
			}
		}
	}
}

// findInstrTable locates the 256-entry instruction table literal (package-level var or assigned in a method).
func (u *unit) findInstrTable(p *pkgInfo) {
	var lit *ast.CompositeLit
	for _, f := range p.files {
		ast.Inspect(f, func(n ast.Node) bool {
			cl, ok := n.(*ast.CompositeLit)
			if !ok {
				return true
			}
			tv, ok := p.info.Types[cl]
			if !ok {
				return true
			}
			at, ok := tv.Type.Underlying().(*types.Array)
			if !ok {
				return true
			}
			if n, ok := at.Elem().(*types.Named); ok && n.Obj().Name() == "instructionType" {
				if lit != nil {
					u.fail(cl.Pos(), "two instruction tables")
				}
				lit = cl
				return false
			}
			return true
		})
	}
	if lit == nil {
		u.fail(token.NoPos, "instruction table not found in %s", p.path)
	}
	it := &instrTable{}
	for _, e := range lit.Elts {
		cl, ok := e.(*ast.CompositeLit)
		if !ok || len(cl.Elts) != 6 {
			u.fail(e.Pos(), "unexpected instruction table element")
		}
		cs := func(i int) string {
			tv := p.info.Types[cl.Elts[i]]
			if tv.Value == nil {
				u.fail(cl.Elts[i].Pos(), "non-constant table field")
			}
			if tv.Value.Kind() == constant.String {
				return constant.StringVal(tv.Value)
			}
			return litInt(tv.Value)
		}
		ent := instrEntry{opcode: cs(0), name: cs(1), mode: cs(2), size: cs(3), cycles: cs(4)}
		var fo *types.Func
		switch pe := cl.Elts[5].(type) {
		case *ast.Ident:
			fo, _ = p.info.Uses[pe].(*types.Func)
		case *ast.SelectorExpr:
			if sel := p.info.Selections[pe]; sel != nil {
				fo, _ = sel.Obj().(*types.Func)
			}
		}
		if fo == nil {
			u.fail(cl.Elts[5].Pos(), "unsupported proc entry")
		}
		ent.proc = fo.Name()
		ent.procFn = u.need(fo, cl.Elts[5].Pos())
		it.entries = append(it.entries, ent)
	}
	if len(it.entries) != 256 {
		u.fail(lit.Pos(), "instruction table has %d entries", len(it.entries))
	}
	u.instrTable = it
}

// need returns the translated function, translating it (and its callees) on demand.
func (u *unit) need(fo *types.Func, pos token.Pos) *fn {
	if f, ok := u.funcs[fo]; ok {
		return f
	}
	if u.inprog[fo] {
		u.fail(pos, "recursive call to %s", fo.Name())
	}
	decl, ok := u.byDecl[fo]
	if !ok {
		u.fail(pos, "call to function outside the translated packages: %s", fo.FullName())
	}
	u.inprog[fo] = true
	p := u.declPkg[fo]
	f := &fn{obj: fo, decl: decl, pkg: p, coq: fo.Name()}
	sig := fo.Type().(*types.Signature)
	c := &fctx{u: u, f: f, info: p.info, names: map[types.Object]string{}, used: map[string]bool{"s": true}, cbVar: map[types.Object]string{}, ghostDef: map[string]bool{}}
	var params []string
	if r := sig.Recv(); r != nil {
		if pre, ok := u.stateTypeOf(r.Type()); ok {
			f.monadic, f.stateVar, f.prefix = true, r, pre
		} else {
			params = append(params, fmt.Sprintf("(%s : %s)", c.nameOf(r), u.coqType(r.Type(), decl.Pos())))
		}
	}
	for i := 0; i < sig.Params().Len(); i++ {
		pv := sig.Params().At(i)
		if pre, ok := u.stateTypeOf(pv.Type()); ok {
			if f.stateVar != nil {
				u.fail(decl.Pos(), "two state parameters")
			}
			f.monadic, f.stateVar, f.prefix = true, pv, pre
			continue
		}
		params = append(params, fmt.Sprintf("(%s : %s)", c.nameOf(pv), u.coqType(pv.Type(), decl.Pos())))
	}
	if f.monadic && u.mode != "z" {
		u.fail(decl.Pos(), "stateful function in pure unit")
	}
	f.retType = u.coqType(sig.Results(), decl.Pos())
	var b strings.Builder
	fmt.Fprintf(&b, "(* %s  func %s *)\n", u.l.pos(decl.Pos()), fo.Name())
	fmt.Fprintf(&b, "Definition %s %s", f.coq, strings.Join(params, " "))
	if f.monadic {
		fmt.Fprintf(&b, " (s : st) : res %s :=\n", f.retType)
	} else {
		fmt.Fprintf(&b, " : %s :=\n", f.retType)
	}
	// named results start at their zero values
	for i := 0; i < sig.Results().Len(); i++ {
		rv := sig.Results().At(i)
		if rv.Name() != "" && rv.Name() != "_" {
			fmt.Fprintf(&b, "let %s := %s in\n", c.nameOf(rv), c.zero(rv.Type(), decl.Pos()))
		}
	}
	body := c.stmts(decl.Body.List, cont{func() string { return c.endOfFunc() }, true})
	b.WriteString(body)
	b.WriteString(".\n\n")
	f.text = b.String()
	u.funcs[fo] = f
	u.done = append(u.done, f)
	delete(u.inprog, fo)
	return f
}

func (u *unit) lookupFunc(p *pkgInfo, recvType, name string) *types.Func {
	for fo, fd := range u.byDecl {
		if u.declPkg[fo] != p || fo.Name() != name {
			continue
		}
		rt := ""
		if fd.Recv != nil && len(fd.Recv.List) == 1 {
			t := fd.Recv.List[0].Type
			if st, ok := t.(*ast.StarExpr); ok {
				t = st.X
			}
			if id, ok := t.(*ast.Ident); ok {
				rt = id.Name
			}
		}
		if rt == recvType {
			return fo
		}
	}
	return nil
}

func (u *unit) sortedFields() []fieldInfo {
	var fs []fieldInfo
	for _, f := range u.fields {
		fs = append(fs, f)
	}
	sort.Slice(fs, func(i, j int) bool { return fs[i].name < fs[j].name })
	return fs
}

func (u *unit) emitTables(b *strings.Builder) {
	var ts []*table
	for _, t := range u.tables {
		ts = append(ts, t)
	}
	sort.Slice(ts, func(i, j int) bool { return ts[i].coq < ts[j].coq })
	for _, t := range ts {
		fmt.Fprintf(b, "Definition %s_list : list word := [%s].\n", t.coq, strings.Join(t.vals, "; "))
		fmt.Fprintf(b, "Definition %s (i : word) : word := w_nth i %s_list.\n\n", t.coq, t.coq)
	}
}
