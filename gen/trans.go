package main

// Go (small imperative subset) -> Gallina.
//
// Two back ends share everything but the header of the generated file:
//   mode "u63": pure functions over primitive 63-bit integers (Lib/U63Ops.v)
//   mode "z"  : state-passing functions over Z in the `res` monad (Lib/ZOps.v, Lib/Machine.v)
// Every fixed-width operation is emitted as a width-indexed operator (add16, shl32, conv8 ...)
// so the wrap-around of the Go type is explicit in the model.
//
// The translator refuses (returns an error naming file:line) anything it does not understand.

import (
	"fmt"
	"go/ast"
	"go/constant"
	"go/token"
	"go/types"
	"sort"
	"strings"
)

type unit struct {
	l          *loader
	mode       string            // "u63" | "z"
	stateTypes map[string]string // "pkgpath.Type" -> field prefix
	funcs      map[*types.Func]*fn
	byDecl     map[*types.Func]*ast.FuncDecl
	declPkg    map[*types.Func]*pkgInfo
	done       []*fn
	inprog     map[*types.Func]bool
	tables     map[types.Object]*table // package-level (or struct field) arrays usable in index expressions
	fields     map[string]fieldInfo    // flattened state fields
	instrTable *instrTable
	ghost      map[string]bool // flattened field names that are write-mostly bookkeeping: eliminated
}

type fieldInfo struct {
	name   string
	width  int // 1 = bool
	isBool bool
}

type table struct {
	coq  string
	vals []string
}

type instrEntry struct {
	opcode, mode, size, cycles string
	name, proc                 string
	procFn                     *fn
}

type instrTable struct {
	entries []instrEntry
}

type fn struct {
	obj      *types.Func
	decl     *ast.FuncDecl
	pkg      *pkgInfo
	coq      string
	monadic  bool
	stateVar types.Object
	prefix   string
	text     string
	retType  string
}

type terr struct{ msg string }

func (u *unit) fail(pos token.Pos, format string, a ...interface{}) {
	panic(terr{fmt.Sprintf("%s: %s", u.l.pos(pos), fmt.Sprintf(format, a...))})
}

// ---------------------------------------------------------------- types

func intWidth(t types.Type) (int, bool) {
	b, ok := t.Underlying().(*types.Basic)
	if !ok {
		return 0, false
	}
	switch b.Kind() {
	case types.Uint8:
		return 8, true
	case types.Uint16:
		return 16, true
	case types.Uint32:
		return 32, true
	case types.Uint64:
		return 64, true
	case types.Int, types.UntypedInt:
		return 0, true // unbounded (z mode only)
	}
	return 0, false
}

func isBool(t types.Type) bool {
	b, ok := t.Underlying().(*types.Basic)
	return ok && (b.Kind() == types.Bool || b.Kind() == types.UntypedBool)
}

func isError(t types.Type) bool {
	return t.String() == "error"
}

func (u *unit) coqType(t types.Type, pos token.Pos) string {
	if tup, ok := t.(*types.Tuple); ok {
		if tup.Len() == 0 {
			return "unit"
		}
		var parts []string
		for i := 0; i < tup.Len(); i++ {
			parts = append(parts, u.coqType(tup.At(i).Type(), pos))
		}
		if len(parts) == 1 {
			return parts[0]
		}
		return "(" + strings.Join(parts, " * ") + ")"
	}
	if isBool(t) {
		return "bool"
	}
	if isError(t) {
		return "gerr"
	}
	if w, ok := intWidth(t); ok {
		if w == 0 && u.mode == "u63" {
			u.fail(pos, "type int not supported in u63 mode")
		}
		if u.mode == "z" {
			// width-carrying aliases of Z (Lib/ZOps.v): the proofs read the Go type of a binder from them
			return fmt.Sprintf("zw%d", w)
		}
		return "word"
	}
	u.fail(pos, "unsupported type %s", t)
	return ""
}

func (u *unit) stateTypeOf(t types.Type) (string, bool) {
	if p, ok := t.(*types.Pointer); ok {
		t = p.Elem()
	}
	n, ok := t.(*types.Named)
	if !ok {
		return "", false
	}
	if n.Obj().Pkg() == nil {
		return "", false
	}
	key := n.Obj().Pkg().Path() + "." + n.Obj().Name()
	pre, ok := u.stateTypes[key]
	return pre, ok
}

// ---------------------------------------------------------------- function context

type fctx struct {
	u     *unit
	f     *fn
	info  *types.Info
	names map[types.Object]string
	used  map[string]bool
	fresh int
	pre   []string // pending monadic binders (openers); each closes with ")"
	cbVar map[types.Object]string // local bound to a callback field (OnWDM)
	ghostDef map[string]bool      // ghost fields assigned so far on this path
}

func coqIdent(s string) string {
	return "v_" + s
}

func (c *fctx) nameOf(o types.Object) string {
	if n, ok := c.names[o]; ok {
		return n
	}
	base := coqIdent(o.Name())
	n := base
	for i := 1; c.used[n]; i++ {
		n = fmt.Sprintf("%s_%d", base, i)
	}
	c.used[n] = true
	c.names[o] = n
	return n
}

func (c *fctx) temp() string {
	c.fresh++
	return fmt.Sprintf("t_%d", c.fresh)
}

func (c *fctx) takePre() (string, string) {
	open := strings.Join(c.pre, "\n")
	cl := strings.Repeat(")", len(c.pre))
	c.pre = nil
	if open != "" {
		open += "\n"
	}
	return open, cl
}

// ---------------------------------------------------------------- field paths

// fieldPath returns the flattened state-field name denoted by e, if e is a selector chain rooted
// at the function's state variable.  For the root itself it returns the prefix and isRoot=true.
func (c *fctx) fieldPath(e ast.Expr) (path string, isRoot bool, ok bool) {
	switch x := e.(type) {
	case *ast.ParenExpr:
		return c.fieldPath(x.X)
	case *ast.Ident:
		o := c.info.Uses[x]
		if o != nil && c.f.stateVar != nil && o == c.f.stateVar {
			return c.f.prefix, true, true
		}
	case *ast.SelectorExpr:
		sel := c.info.Selections[x]
		if sel == nil || sel.Kind() != types.FieldVal {
			return "", false, false
		}
		base, _, ok := c.fieldPath(x.X)
		if !ok {
			return "", false, false
		}
		return base + x.Sel.Name + "_", false, true
	}
	return "", false, false
}

func (c *fctx) fieldName(e ast.Expr) (fieldInfo, bool) {
	p, root, ok := c.fieldPath(e)
	if !ok || root {
		return fieldInfo{}, false
	}
	p = strings.TrimSuffix(p, "_")
	fi, ok := c.u.fields[p]
	return fi, ok
}

// ---------------------------------------------------------------- expressions

func litInt(v constant.Value) string {
	s := v.ExactString()
	if strings.HasPrefix(s, "-") {
		return "(" + s + ")"
	}
	return s
}

func (c *fctx) expr(e ast.Expr) string {
	u := c.u
	tv, hasTV := c.info.Types[e]
	if hasTV && tv.Value != nil {
		switch tv.Value.Kind() {
		case constant.Int:
			return litInt(tv.Value)
		case constant.Bool:
			if constant.BoolVal(tv.Value) {
				return "true"
			}
			return "false"
		}
	}
	switch x := e.(type) {
	case *ast.ParenExpr:
		return c.expr(x.X)
	case *ast.Ident:
		if x.Name == "nil" {
			return "ENil"
		}
		o := c.info.Uses[x]
		if o == nil {
			o = c.info.Defs[x]
		}
		if v, ok := o.(*types.Var); ok {
			if v.Parent() == v.Pkg().Scope() {
				if isError(v.Type()) {
					return errCtor(v.Name())
				}
				u.fail(x.Pos(), "read of package-level variable %s", v.Name())
			}
			return c.nameOf(o)
		}
		u.fail(x.Pos(), "unsupported identifier %s", x.Name)
	case *ast.SelectorExpr:
		if fi, ok := c.fieldName(x); ok {
			if c.u.ghost[fi.name] {
				if !c.ghostDef[fi.name] {
					u.fail(x.Pos(), "read of bookkeeping field %s before it is assigned in this function", fi.name)
				}
				if fi.isBool {
					return "(z2b g_" + fi.name + ")"
				}
				return "g_" + fi.name
			}
			if fi.isBool {
				return "(z2b (get " + fi.name + " s))"
			}
			return "(get " + fi.name + " s)"
		}
		if o, ok := c.info.Uses[x.Sel].(*types.Var); ok && o.Parent() == o.Pkg().Scope() && isError(o.Type()) {
			return errCtor(o.Name())
		}
		// instruction table entry field: instructions[op].mode
		if ix, ok := x.X.(*ast.IndexExpr); ok && c.isInstrTable(ix.X) {
			switch x.Sel.Name {
			case "mode", "size", "cycles", "opcode":
				return "(tbl_" + x.Sel.Name + " " + c.expr(ix.Index) + ")"
			}
		}
		u.fail(x.Pos(), "unsupported selector %s", types.ExprString(x))
	case *ast.UnaryExpr:
		a := c.expr(x.X)
		switch x.Op {
		case token.NOT:
			return "(negb " + a + ")"
		case token.SUB:
			return fmt.Sprintf("(neg%d %s)", c.w(tv.Type, x.Pos()), a)
		case token.XOR:
			return fmt.Sprintf("(not%d %s)", c.w(tv.Type, x.Pos()), a)
		case token.ADD:
			return a
		}
		u.fail(x.Pos(), "unsupported unary %s", x.Op)
	case *ast.BinaryExpr:
		return c.binary(x, tv.Type)
	case *ast.IndexExpr:
		// global byte tables
		if o := c.tableObj(x.X); o != nil {
			return "(" + o.coq + " " + c.expr(x.Index) + ")"
		}
		if c.isSegment(x.X) {
			t := c.temp()
			c.pre = append(c.pre, fmt.Sprintf("bind (seg_get %s s) (fun %s s =>", c.expr(x.Index), t))
			return t
		}
		u.fail(x.Pos(), "unsupported index expression %s", types.ExprString(x))
	case *ast.CallExpr:
		return c.call(x, true)
	}
	u.fail(e.Pos(), "unsupported expression %T %s", e, types.ExprString(e))
	return ""
}

func errCtor(name string) string {
	if name == "ErrUnmappedAddress" {
		return "EUnmapped"
	}
	return "EOther"
}

func (c *fctx) w(t types.Type, pos token.Pos) int {
	w, ok := intWidth(t)
	if !ok {
		c.u.fail(pos, "not an integer type: %s", t)
	}
	if w == 0 && c.u.mode == "u63" {
		c.u.fail(pos, "unbounded int in u63 mode")
	}
	return w
}

func (c *fctx) isNilExpr(e ast.Expr) bool {
	id, ok := e.(*ast.Ident)
	return ok && id.Name == "nil"
}

func (c *fctx) binary(x *ast.BinaryExpr, t types.Type) string {
	u := c.u
	switch x.Op {
	case token.LAND, token.LOR:
		a := c.expr(x.X)
		n := len(c.pre)
		b := c.expr(x.Y)
		if len(c.pre) != n {
			u.fail(x.Pos(), "call with effects on the right of && / ||")
		}
		if x.Op == token.LAND {
			return "(andb " + a + " " + b + ")"
		}
		return "(orb " + a + " " + b + ")"
	case token.EQL, token.NEQ, token.LSS, token.LEQ, token.GTR, token.GEQ:
		// nil comparisons of handles / callbacks / errors
		if c.isNilExpr(x.Y) || c.isNilExpr(x.X) {
			other := x.X
			if c.isNilExpr(x.X) {
				other = x.Y
			}
			var r string
			if id, ok := other.(*ast.Ident); ok {
				o := c.info.Uses[id]
				if cb, ok := c.cbVar[o]; ok {
					r = "(cb_absent_" + cb + " s)"
				}
			}
			if r == "" {
				ot := c.info.Types[other].Type
				if isError(ot) {
					r = "(gerr_is_nil " + c.expr(other) + ")"
				} else if _, ok := ot.Underlying().(*types.Interface); ok {
					r = "(seg_nil " + c.expr(other) + " s)"
				} else {
					u.fail(x.Pos(), "unsupported nil comparison")
				}
			}
			if x.Op == token.NEQ {
				return "(negb " + r + ")"
			}
			return r
		}
		xt := c.info.Types[x.X].Type
		a, b := c.expr(x.X), c.expr(x.Y)
		if isBool(xt) {
			switch x.Op {
			case token.EQL:
				return "(Bool.eqb " + a + " " + b + ")"
			case token.NEQ:
				return "(negb (Bool.eqb " + a + " " + b + "))"
			}
			u.fail(x.Pos(), "ordering on bool")
		}
		if _, ok := intWidth(xt); !ok {
			u.fail(x.Pos(), "comparison on unsupported type %s", xt)
		}
		switch x.Op {
		case token.EQL:
			return "(w_eqb " + a + " " + b + ")"
		case token.NEQ:
			return "(negb (w_eqb " + a + " " + b + "))"
		case token.LSS:
			return "(w_ltb " + a + " " + b + ")"
		case token.LEQ:
			return "(w_leb " + a + " " + b + ")"
		case token.GTR:
			return "(w_ltb " + b + " " + a + ")"
		case token.GEQ:
			return "(w_leb " + b + " " + a + ")"
		}
	}
	a, b := c.expr(x.X), c.expr(x.Y)
	return c.arith(x.Op, a, b, t, x.Pos())
}

func (c *fctx) arith(op token.Token, a, b string, t types.Type, pos token.Pos) string {
	w := c.w(t, pos)
	switch op {
	case token.ADD:
		return fmt.Sprintf("(add%d %s %s)", w, a, b)
	case token.SUB:
		return fmt.Sprintf("(sub%d %s %s)", w, a, b)
	case token.MUL:
		return fmt.Sprintf("(mul%d %s %s)", w, a, b)
	case token.QUO:
		return fmt.Sprintf("(w_div %s %s)", a, b)
	case token.REM:
		return fmt.Sprintf("(w_mod %s %s)", a, b)
	case token.AND:
		return fmt.Sprintf("(w_and %s %s)", a, b)
	case token.OR:
		return fmt.Sprintf("(w_or %s %s)", a, b)
	case token.XOR:
		return fmt.Sprintf("(w_xor %s %s)", a, b)
	case token.AND_NOT:
		return fmt.Sprintf("(w_and %s (not%d %s))", a, w, b)
	case token.SHL:
		return fmt.Sprintf("(shl%d %s %s)", w, a, b)
	case token.SHR:
		return fmt.Sprintf("(w_shr %s %s)", a, b)
	}
	c.u.fail(pos, "unsupported operator %s", op)
	return ""
}

func (c *fctx) tableObj(e ast.Expr) *table {
	switch x := e.(type) {
	case *ast.Ident:
		if o := c.info.Uses[x]; o != nil {
			return c.u.tables[o]
		}
	}
	return nil
}

func (c *fctx) isInstrTable(e ast.Expr) bool {
	switch x := e.(type) {
	case *ast.Ident:
		return x.Name == "instructions"
	case *ast.SelectorExpr:
		return x.Sel.Name == "instructions"
	}
	return false
}

func (c *fctx) isSegment(e ast.Expr) bool {
	x, ok := e.(*ast.SelectorExpr)
	if !ok || x.Sel.Name != "segment" {
		return false
	}
	_, _, ok = c.fieldPath(x.X)
	return ok
}

// call translates a call expression.  asExpr: the value is used.
func (c *fctx) call(x *ast.CallExpr, asExpr bool) string {
	u := c.u
	// conversion
	if tv, ok := c.info.Types[x.Fun]; ok && tv.IsType() {
		if len(x.Args) != 1 {
			u.fail(x.Pos(), "bad conversion")
		}
		src := c.info.Types[x.Args[0]].Type
		a := c.expr(x.Args[0])
		wd, ok1 := intWidth(tv.Type)
		ws, ok2 := intWidth(src)
		if !ok1 || !ok2 {
			u.fail(x.Pos(), "unsupported conversion %s", types.ExprString(x))
		}
		if wd == 0 {
			if u.mode == "u63" {
				u.fail(x.Pos(), "conversion to int in u63 mode")
			}
			return a
		}
		if ws == 0 || wd < ws {
			return fmt.Sprintf("(conv%d %s)", wd, a)
		}
		return a
	}
	switch f := x.Fun.(type) {
	case *ast.Ident:
		o := c.info.Uses[f]
		if cb, ok := c.cbVar[o]; ok {
			var args []string
			for _, a := range x.Args {
				args = append(args, c.expr(a))
			}
			t := c.temp()
			c.pre = append(c.pre, fmt.Sprintf("bind (cb_call_%s %s s) (fun %s s =>", cb, strings.Join(args, " "), t))
			return t
		}
		if f.Name == "panic" {
			return "PANIC"
		}
		if fo, ok := o.(*types.Func); ok {
			return c.userCall(x, fo, nil)
		}
	case *ast.SelectorExpr:
		// package-qualified function
		if id, ok := f.X.(*ast.Ident); ok {
			if pn, ok := c.info.Uses[id].(*types.PkgName); ok {
				switch pn.Imported().Path() {
				case "log":
					if f.Sel.Name == "Println" || f.Sel.Name == "Printf" {
						return "NOP"
					}
					if f.Sel.Name == "Fatalf" || f.Sel.Name == "Fatal" {
						return "PANIC"
					}
				}
				if fo, ok := c.info.Uses[f.Sel].(*types.Func); ok {
					return c.userCall(x, fo, nil)
				}
			}
		}
		sel := c.info.Selections[f]
		if sel != nil && sel.Kind() == types.MethodVal {
			fo := sel.Obj().(*types.Func)
			// method of an interface-typed memory handle: h.Read(a) / h.Write(a, v)
			if _, ok := sel.Recv().Underlying().(*types.Interface); ok {
				h := c.expr(f.X)
				var args []string
				for _, a := range x.Args {
					args = append(args, c.expr(a))
				}
				t := c.temp()
				switch fo.Name() {
				case "Read":
					c.pre = append(c.pre, fmt.Sprintf("bind (mem_read %s %s s) (fun %s s =>", h, strings.Join(args, " "), t))
				case "Write":
					c.pre = append(c.pre, fmt.Sprintf("bind (mem_write %s %s s) (fun %s s =>", h, strings.Join(args, " "), t))
				default:
					u.fail(x.Pos(), "unsupported interface method %s", fo.Name())
				}
				return t
			}
			return c.userCall(x, fo, f.X)
		}
		// instruction table dispatch: instructions[op].proc(cpu)
		if f.Sel.Name == "proc" {
			if ix, ok := f.X.(*ast.IndexExpr); ok && c.isInstrTable(ix.X) {
				t := c.temp()
				c.pre = append(c.pre, fmt.Sprintf("bind (tbl_proc %s s) (fun %s s =>", c.expr(ix.Index), t))
				return t
			}
		}
	case *ast.IndexExpr:
		// alternative bus: b.Read[i](a) / b.Write[i](a, v)
		if se, ok := f.X.(*ast.SelectorExpr); ok {
			if _, _, ok := c.fieldPath(se.X); ok && (se.Sel.Name == "Read" || se.Sel.Name == "Write") {
				idx := c.expr(f.Index)
				var args []string
				for _, a := range x.Args {
					args = append(args, c.expr(a))
				}
				t := c.temp()
				prim := "bus_read"
				if se.Sel.Name == "Write" {
					prim = "bus_write"
				}
				c.pre = append(c.pre, fmt.Sprintf("bind (%s %s %s s) (fun %s s =>", prim, idx, strings.Join(args, " "), t))
				return t
			}
		}
	}
	u.fail(x.Pos(), "unsupported call %s", types.ExprString(x))
	return ""
}

func (c *fctx) userCall(x *ast.CallExpr, fo *types.Func, recv ast.Expr) string {
	u := c.u
	callee := u.need(fo, x.Pos())
	var args []string
	if recv != nil {
		if _, _, ok := c.fieldPath(recv); ok {
			if !callee.monadic {
				u.fail(x.Pos(), "state receiver on pure function")
			}
		} else {
			args = append(args, c.expr(recv)) // value receiver
		}
	}
	for _, a := range x.Args {
		if _, root, ok := c.fieldPath(a); ok && root {
			continue // the state pointer itself (op_php(cpu))
		}
		args = append(args, c.expr(a))
	}
	as := ""
	if len(args) > 0 {
		as = " " + strings.Join(args, " ")
	}
	if !callee.monadic {
		return "(" + callee.coq + as + ")"
	}
	if !c.f.monadic {
		u.fail(x.Pos(), "monadic call from pure function")
	}
	t := c.temp()
	c.pre = append(c.pre, fmt.Sprintf("bind (%s%s s) (fun %s s =>", callee.coq, as, t))
	return t
}

// ---------------------------------------------------------------- statements

type cont struct {
	gen     func() string
	trivial bool
}

// exits: number of distinct fall-through exits of a statement list (0 = always returns/panics)
func (c *fctx) exitsList(l []ast.Stmt) int {
	if len(l) == 0 {
		return 1
	}
	for i, s := range l {
		e := c.exits(s)
		if e == 0 {
			return 0
		}
		if i == len(l)-1 {
			return e
		}
	}
	return 1
}

func (c *fctx) exits(s ast.Stmt) int {
	switch x := s.(type) {
	case *ast.ReturnStmt:
		return 0
	case *ast.ExprStmt:
		if ce, ok := x.X.(*ast.CallExpr); ok {
			if id, ok := ce.Fun.(*ast.Ident); ok && id.Name == "panic" {
				return 0
			}
			if se, ok := ce.Fun.(*ast.SelectorExpr); ok && (se.Sel.Name == "Fatalf" || se.Sel.Name == "Fatal") {
				return 0
			}
		}
		return 1
	case *ast.BlockStmt:
		return c.exitsList(x.List)
	case *ast.IfStmt:
		n := c.exitsList(x.Body.List)
		if x.Else == nil {
			return n + 1
		}
		return n + c.exits(x.Else)
	case *ast.SwitchStmt:
		n := 0
		hasDefault := false
		for _, cc := range x.Body.List {
			cl := cc.(*ast.CaseClause)
			if cl.List == nil {
				hasDefault = true
			}
			n += c.exitsList(cl.Body)
		}
		if !hasDefault {
			n++
		}
		return n
	}
	return 1
}

// assigned collects local variables (declared outside node n) assigned inside n.
func (c *fctx) assigned(n ast.Node) []types.Object {
	seen := map[types.Object]bool{}
	var out []types.Object
	add := func(e ast.Expr) {
		id, ok := e.(*ast.Ident)
		if !ok || id.Name == "_" {
			return
		}
		o := c.info.Uses[id]
		if o == nil {
			return // a definition inside n
		}
		v, ok := o.(*types.Var)
		if !ok || v.IsField() {
			return
		}
		if v.Pos() >= n.Pos() && v.Pos() < n.End() {
			return
		}
		if !seen[o] {
			seen[o] = true
			out = append(out, o)
		}
	}
	ast.Inspect(n, func(m ast.Node) bool {
		switch x := m.(type) {
		case *ast.AssignStmt:
			for _, l := range x.Lhs {
				add(l)
			}
		case *ast.IncDecStmt:
			add(x.X)
		}
		return true
	})
	sort.Slice(out, func(i, j int) bool { return out[i].Pos() < out[j].Pos() })
	return out
}

func (c *fctx) kparams(vars []types.Object) (formal, actual string) {
	var fs, ns []string
	for _, v := range vars {
		n := c.nameOf(v)
		ns = append(ns, n)
		if _, isIface := v.Type().Underlying().(*types.Interface); isIface && !isError(v.Type()) {
			if c.u.mode == "z" {
				fs = append(fs, "("+n+" : zw0)")
			} else {
				fs = append(fs, "("+n+" : word)")
			}
		} else {
			fs = append(fs, "("+n+" : "+c.u.coqType(v.Type(), v.Pos())+")")
		}
	}
	if c.f.monadic {
		ns = append(ns, "s")
		fs = append(fs, "(s : st)")
	}
	if len(ns) == 0 {
		return "(_ : unit)", "tt"
	}
	return strings.Join(fs, " "), strings.Join(ns, " ")
}

func (c *fctx) stmts(l []ast.Stmt, k cont) string {
	if len(l) == 0 {
		return k.gen()
	}
	s := l[0]
	rest := func() string { return c.stmts(l[1:], k) }
	switch x := s.(type) {
	case *ast.EmptyStmt:
		return rest()
	case *ast.BlockStmt:
		return c.stmts(append(append([]ast.Stmt{}, x.List...), l[1:]...), k)
	case *ast.ReturnStmt:
		return c.ret(x)
	case *ast.DeclStmt:
		gd := x.Decl.(*ast.GenDecl)
		if gd.Tok != token.VAR {
			return rest()
		}
		var b strings.Builder
		for _, sp := range gd.Specs {
			vs := sp.(*ast.ValueSpec)
			for i, id := range vs.Names {
				o := c.info.Defs[id]
				var val string
				if i < len(vs.Values) {
					val = c.expr(vs.Values[i])
				} else {
					val = c.zero(o.Type(), id.Pos())
				}
				open, cl := c.takePre()
				if cl != "" {
					c.u.fail(id.Pos(), "effects in var initialiser")
				}
				_ = open
				fmt.Fprintf(&b, "let %s := %s in\n", c.nameOf(o), val)
			}
		}
		return b.String() + rest()
	case *ast.IncDecStmt:
		op := token.ADD
		if x.Tok == token.DEC {
			op = token.SUB
		}
		return c.assignOne(x.X, nil, op, "1", x.Pos(), rest)
	case *ast.AssignStmt:
		return c.assign(x, rest)
	case *ast.ExprStmt:
		ce, ok := x.X.(*ast.CallExpr)
		if !ok {
			c.u.fail(x.Pos(), "unsupported expression statement")
		}
		r := c.call(ce, false)
		open, cl := c.takePre()
		if r == "PANIC" {
			return open + "Panic" + cl
		}
		return open + rest() + cl
	case *ast.IfStmt:
		return c.ifStmt(x, l[1:], k)
	case *ast.SwitchStmt:
		return c.switchStmt(x, l[1:], k)
	}
	c.u.fail(s.Pos(), "unsupported statement %T", s)
	return ""
}

func (c *fctx) zero(t types.Type, pos token.Pos) string {
	if isBool(t) {
		return "false"
	}
	if isError(t) {
		return "ENil"
	}
	if _, ok := intWidth(t); ok {
		return "0"
	}
	c.u.fail(pos, "no zero value for %s", t)
	return ""
}

func (c *fctx) ret(x *ast.ReturnStmt) string {
	sig := c.f.obj.Type().(*types.Signature)
	var vals []string
	if len(x.Results) == 0 {
		for i := 0; i < sig.Results().Len(); i++ {
			vals = append(vals, c.nameOf(sig.Results().At(i)))
		}
	} else if len(x.Results) == 1 && sig.Results().Len() > 1 {
		vals = append(vals, c.expr(x.Results[0])) // f() returning a tuple
	} else {
		for _, r := range x.Results {
			vals = append(vals, c.expr(r))
		}
	}
	open, cl := c.takePre()
	v := "tt"
	if len(vals) == 1 {
		v = vals[0]
	} else if len(vals) > 1 {
		v = "(" + strings.Join(vals, ", ") + ")"
	}
	if c.f.monadic {
		return open + "Ok " + v + " s" + cl
	}
	return open + v + cl
}

func (c *fctx) endOfFunc() string {
	sig := c.f.obj.Type().(*types.Signature)
	if sig.Results().Len() != 0 {
		// falling off the end with named results is a compile error in Go unless there is a return
		c.u.fail(c.f.decl.End(), "missing return")
	}
	if c.f.monadic {
		return "Ok tt s"
	}
	return "tt"
}

func (c *fctx) assign(x *ast.AssignStmt, rest func() string) string {
	u := c.u
	if x.Tok != token.ASSIGN && x.Tok != token.DEFINE {
		// op=
		var op token.Token
		switch x.Tok {
		case token.ADD_ASSIGN:
			op = token.ADD
		case token.SUB_ASSIGN:
			op = token.SUB
		case token.MUL_ASSIGN:
			op = token.MUL
		case token.OR_ASSIGN:
			op = token.OR
		case token.AND_ASSIGN:
			op = token.AND
		case token.XOR_ASSIGN:
			op = token.XOR
		case token.SHL_ASSIGN:
			op = token.SHL
		case token.SHR_ASSIGN:
			op = token.SHR
		case token.AND_NOT_ASSIGN:
			op = token.AND_NOT
		default:
			u.fail(x.Pos(), "unsupported assignment %s", x.Tok)
		}
		rhs := c.expr(x.Rhs[0])
		return c.assignOne(x.Lhs[0], nil, op, rhs, x.Pos(), rest)
	}
	// callback capture: onWDM := cpu.OnWDM
	if len(x.Lhs) == 1 && len(x.Rhs) == 1 {
		if se, ok := x.Rhs[0].(*ast.SelectorExpr); ok {
			if _, _, ok := c.fieldPath(se.X); ok {
				if _, isFn := c.info.Types[se].Type.Underlying().(*types.Signature); isFn {
					id := x.Lhs[0].(*ast.Ident)
					o := c.info.Defs[id]
					if o == nil {
						o = c.info.Uses[id]
					}
					c.cbVar[o] = se.Sel.Name
					return rest()
				}
			}
		}
		// struct literal into a struct field: cpu.StepInfo = StepInfo{ea, addr, mode}
		if cl, ok := x.Rhs[0].(*ast.CompositeLit); ok {
			base, _, ok := c.fieldPath(x.Lhs[0])
			if !ok {
				u.fail(x.Pos(), "composite literal assigned to non-state location")
			}
			st, ok := c.info.Types[cl].Type.Underlying().(*types.Struct)
			if !ok || len(cl.Elts) != st.NumFields() {
				u.fail(x.Pos(), "unsupported composite literal")
			}
			var vals []string
			for _, e := range cl.Elts {
				if _, ok := e.(*ast.KeyValueExpr); ok {
					u.fail(x.Pos(), "keyed composite literal")
				}
				vals = append(vals, c.expr(e))
			}
			open, clo := c.takePre()
			var b strings.Builder
			b.WriteString(open)
			for i := range vals {
				fi, ok := u.fields[base+st.Field(i).Name()]
				if !ok {
					u.fail(x.Pos(), "unknown field %s", base+st.Field(i).Name())
				}
				fmt.Fprintf(&b, "let s := set %s %s s in\n", fi.name, c.toZ(fi, vals[i]))
			}
			return b.String() + rest() + clo
		}
	}
	if len(x.Lhs) == 1 && len(x.Rhs) == 1 {
		rhs := c.expr(x.Rhs[0])
		return c.assignOne(x.Lhs[0], x, token.ILLEGAL, rhs, x.Pos(), rest)
	}
	if len(x.Rhs) == 1 && len(x.Lhs) > 1 {
		// tuple-returning call
		rhs := c.expr(x.Rhs[0])
		open, cl := c.takePre()
		var ns []string
		for _, lh := range x.Lhs {
			id, ok := lh.(*ast.Ident)
			if !ok {
				u.fail(x.Pos(), "tuple assignment to non-identifier")
			}
			if id.Name == "_" {
				ns = append(ns, "_")
				continue
			}
			o := c.info.Defs[id]
			if o == nil {
				o = c.info.Uses[id]
			}
			ns = append(ns, c.nameOf(o))
		}
		return open + "let '(" + strings.Join(ns, ", ") + ") := " + rhs + " in\n" + rest() + cl
	}
	if len(x.Lhs) == len(x.Rhs) {
		// parallel assignment: evaluate all right-hand sides first
		var tmps []string
		var b strings.Builder
		for _, r := range x.Rhs {
			v := c.expr(r)
			open, cl := c.takePre()
			if cl != "" {
				u.fail(x.Pos(), "effects in parallel assignment")
			}
			_ = open
			t := c.temp()
			fmt.Fprintf(&b, "let %s := %s in\n", t, v)
			tmps = append(tmps, t)
		}
		var chain func(i int) string
		chain = func(i int) string {
			if i == len(x.Lhs) {
				return rest()
			}
			return c.assignOne(x.Lhs[i], x, token.ILLEGAL, tmps[i], x.Pos(), func() string { return chain(i + 1) })
		}
		return b.String() + chain(0)
	}
	u.fail(x.Pos(), "unsupported assignment shape")
	return ""
}

func (c *fctx) toZ(fi fieldInfo, v string) string {
	if fi.isBool {
		return "(b2z " + v + ")"
	}
	return v
}

// assignOne: lhs = rhs, or lhs = lhs op rhs when op != ILLEGAL.
func (c *fctx) assignOne(lhs ast.Expr, as *ast.AssignStmt, op token.Token, rhs string, pos token.Pos, rest func() string) string {
	u := c.u
	if fi, ok := c.fieldName(lhs); ok {
		if !c.f.monadic {
			u.fail(pos, "state write in pure function")
		}
		val := rhs
		if c.u.ghost[fi.name] {
			if op != token.ILLEGAL {
				u.fail(pos, "read-modify-write of bookkeeping field %s", fi.name)
			}
			open, cl := c.takePre()
			c.ghostDef[fi.name] = true
			return open + "let g_" + fi.name + " := " + c.toZ(fi, val) + " in\n" + rest() + cl
		}
		if op != token.ILLEGAL {
			cur := "(get " + fi.name + " s)"
			val = c.arith(op, cur, rhs, c.info.Types[lhs].Type, pos)
		}
		open, cl := c.takePre()
		return open + "let s := set " + fi.name + " " + c.toZ(fi, val) + " s in\n" + rest() + cl
	}
	id, ok := lhs.(*ast.Ident)
	if !ok {
		u.fail(pos, "unsupported assignment target %s", types.ExprString(lhs))
	}
	if id.Name == "_" {
		open, cl := c.takePre()
		return open + rest() + cl
	}
	o := c.info.Defs[id]
	if o == nil {
		o = c.info.Uses[id]
	}
	if _, isCb := c.cbVar[o]; isCb {
		u.fail(pos, "reassigned callback variable")
	}
	val := rhs
	if op != token.ILLEGAL {
		val = c.arith(op, c.nameOf(o), rhs, o.Type(), pos)
	}
	open, cl := c.takePre()
	// interface-typed handle (segment) bound by the prelude: plain let
	return open + "let " + c.nameOf(o) + " := " + val + " in\n" + rest() + cl
}

func (c *fctx) ifStmt(x *ast.IfStmt, after []ast.Stmt, k cont) string {
	// special form: if cb, ok := cpu.OnPC[a]; ok { cb() }
	if as, ok := x.Init.(*ast.AssignStmt); ok && len(as.Lhs) == 2 && len(as.Rhs) == 1 {
		if ix, ok := as.Rhs[0].(*ast.IndexExpr); ok {
			if se, ok := ix.X.(*ast.SelectorExpr); ok && se.Sel.Name == "OnPC" {
				if _, _, ok := c.fieldPath(se.X); ok {
					a := c.expr(ix.Index)
					open, cl := c.takePre()
					return open + "bind (cb_pc " + a + " s) (fun _ s =>\n" + c.stmts(after, k) + ")" + cl
				}
			}
		}
	}
	if x.Init != nil {
		// generic init: translate as a preceding statement in the same scope
		x2 := *x
		x2.Init = nil
		return c.stmts(append([]ast.Stmt{x.Init, &x2}, after...), k)
	}
	cond := c.expr(x.Cond)
	open, cl := c.takePre()
	var elseList []ast.Stmt
	if x.Else != nil {
		elseList = []ast.Stmt{x.Else}
	}
	body := c.branch(x, cond, [][]ast.Stmt{x.Body.List, elseList}, after, k)
	return open + body + cl
}

// branch emits `if cond then A else B` followed by `after`, introducing a join point when more than
// one path falls through into a non-trivial continuation.
func (c *fctx) saveGhost() map[string]bool {
	m := map[string]bool{}
	for k, v := range c.ghostDef {
		m[k] = v
	}
	return m
}

func (c *fctx) branch(node ast.Node, cond string, arms [][]ast.Stmt, after []ast.Stmt, k cont) string {
	saved := c.saveGhost()
	defer func() { c.ghostDef = saved }()
	restore := func() { c.ghostDef = map[string]bool{}; for k, v := range saved { c.ghostDef[k] = v } }
	n := c.exitsList(arms[0]) + c.exitsList(arms[1])
	if n <= 1 || (len(after) == 0 && k.trivial) {
		kk := cont{func() string { return c.stmts(after, k) }, len(after) == 0 && k.trivial}
		a := c.stmts(arms[0], kk)
		restore()
		b := c.stmts(arms[1], kk)
		return "(if " + cond + " then\n" + a + "\nelse\n" + b + ")"
	}
	vars := c.assigned(node)
	formal, actual := c.kparams(vars)
	c.fresh++
	kn := fmt.Sprintf("k_%d", c.fresh)
	kbody := c.stmts(after, k)
	restore()
	jump := cont{func() string { return kn + " " + actual }, true}
	a := c.stmts(arms[0], jump)
	restore()
	b := c.stmts(arms[1], jump)
	return "let " + kn + " := fun " + formal + " =>\n" + kbody + " in\n(if " + cond + " then\n" + a + "\nelse\n" + b + ")"
}

func (c *fctx) switchStmt(x *ast.SwitchStmt, after []ast.Stmt, k cont) string {
	u := c.u
	if x.Init != nil {
		u.fail(x.Pos(), "switch with init")
	}
	var b strings.Builder
	tag := ""
	if x.Tag != nil {
		tv := c.expr(x.Tag)
		open, cl := c.takePre()
		if cl != "" {
			u.fail(x.Pos(), "effects in switch tag")
		}
		_ = open
		tag = c.temp()
		fmt.Fprintf(&b, "let %s := %s in\n", tag, tv)
	}
	type arm struct {
		cond string
		body []ast.Stmt
	}
	var arms []arm
	var def []ast.Stmt
	hasDef := false
	total := 0
	for _, cc := range x.Body.List {
		cl := cc.(*ast.CaseClause)
		for _, s := range cl.Body {
			if br, ok := s.(*ast.BranchStmt); ok {
				u.fail(br.Pos(), "break/fallthrough in switch")
			}
		}
		total += c.exitsList(cl.Body)
		if cl.List == nil {
			def = cl.Body
			hasDef = true
			continue
		}
		var conds []string
		for _, e := range cl.List {
			v := c.expr(e)
			if len(c.pre) > 0 {
				u.fail(e.Pos(), "effects in case expression")
			}
			if tag != "" {
				if isBool(c.info.Types[x.Tag].Type) {
					conds = append(conds, "(Bool.eqb "+tag+" "+v+")")
				} else {
					conds = append(conds, "(w_eqb "+tag+" "+v+")")
				}
			} else {
				conds = append(conds, v)
			}
		}
		cond := conds[0]
		for _, o := range conds[1:] {
			cond = "(orb " + cond + " " + o + ")"
		}
		arms = append(arms, arm{cond, cl.Body})
	}
	if !hasDef {
		total++
	}
	var jump cont
	var head string
	if total <= 1 || (len(after) == 0 && k.trivial) {
		jump = cont{func() string { return c.stmts(after, k) }, len(after) == 0 && k.trivial}
	} else {
		vars := c.assigned(x)
		formal, actual := c.kparams(vars)
		c.fresh++
		kn := fmt.Sprintf("k_%d", c.fresh)
		head = "let " + kn + " := fun " + formal + " =>\n" + c.stmts(after, k) + " in\n"
		jump = cont{func() string { return kn + " " + actual }, true}
	}
	var chain func(i int) string
	chain = func(i int) string {
		if i == len(arms) {
			return c.stmts(def, jump)
		}
		return "(if " + arms[i].cond + " then\n" + c.stmts(arms[i].body, jump) + "\nelse\n" + chain(i+1) + ")"
	}
	return b.String() + head + chain(0)
}
