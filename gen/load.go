package main

// Package loading without external dependencies: repo packages are parsed and
// type-checked from source (module path prefix -> directory), the standard
// library through the "source" importer.

import (
	"fmt"
	"go/ast"
	"go/importer"
	"go/parser"
	"go/token"
	"go/types"
	"os"
	"path/filepath"
	"sort"
	"strings"
)

const modPath = "github.com/alttpo/snes"

type pkgInfo struct {
	path  string
	dir   string
	files []*ast.File
	names []string // file names, parallel to files
	pkg   *types.Package
	info  *types.Info
}

type loader struct {
	root string
	fset *token.FileSet
	std  types.Importer
	pkgs map[string]*pkgInfo
}

func newLoader(root string) *loader {
	fset := token.NewFileSet()
	return &loader{root: root, fset: fset, std: importer.ForCompiler(fset, "source", nil), pkgs: map[string]*pkgInfo{}}
}

func (l *loader) Import(path string) (*types.Package, error) {
	if path == modPath || strings.HasPrefix(path, modPath+"/") {
		p, err := l.load(path)
		if err != nil {
			return nil, err
		}
		return p.pkg, nil
	}
	return l.std.Import(path)
}

func (l *loader) load(path string) (*pkgInfo, error) {
	if p, ok := l.pkgs[path]; ok {
		if p == nil {
			return nil, fmt.Errorf("import cycle through %s", path)
		}
		return p, nil
	}
	l.pkgs[path] = nil
	dir := filepath.Join(l.root, strings.TrimPrefix(strings.TrimPrefix(path, modPath), "/"))
	ents, err := os.ReadDir(dir)
	if err != nil {
		return nil, err
	}
	p := &pkgInfo{path: path, dir: dir}
	var fnames []string
	for _, e := range ents {
		n := e.Name()
		if e.IsDir() || !strings.HasSuffix(n, ".go") || strings.HasSuffix(n, "_test.go") {
			continue
		}
		fnames = append(fnames, n)
	}
	sort.Strings(fnames)
	for _, n := range fnames {
		f, err := parser.ParseFile(l.fset, filepath.Join(dir, n), nil, parser.ParseComments)
		if err != nil {
			return nil, err
		}
		// honour "//go:build verif"-style constraints crudely: skip files that require a tag
		skip := false
		for _, cg := range f.Comments {
			if cg.Pos() > f.Package {
				break
			}
			for _, c := range cg.List {
				if strings.HasPrefix(c.Text, "//go:build ") && !strings.Contains(c.Text, "!") {
					skip = true
				}
			}
		}
		if skip {
			continue
		}
		p.files = append(p.files, f)
		p.names = append(p.names, n)
	}
	p.info = &types.Info{
		Types:      map[ast.Expr]types.TypeAndValue{},
		Defs:       map[*ast.Ident]types.Object{},
		Uses:       map[*ast.Ident]types.Object{},
		Selections: map[*ast.SelectorExpr]*types.Selection{},
	}
	conf := types.Config{Importer: l, Error: func(err error) {}}
	pkg, err := conf.Check(path, l.fset, p.files, p.info)
	if err != nil {
		return nil, fmt.Errorf("type-check %s: %v", path, err)
	}
	p.pkg = pkg
	l.pkgs[path] = p
	return p, nil
}

func (l *loader) pos(p token.Pos) string {
	pp := l.fset.Position(p)
	rel, err := filepath.Rel(l.root, pp.Filename)
	if err != nil {
		rel = pp.Filename
	}
	return fmt.Sprintf("%s:%d", rel, pp.Line)
}
